"""Symbolic timedelta / datetime for the conversion kernels (C15).

SymTimedelta = total microseconds (SymInt or int); SymDatetime = microseconds since
0001-01-01T00:00:00 on the datetime's own clock + a fixed UTC offset in minutes (None for
naive).  days / seconds / microseconds are derived with CPython's normalisation."""
import builtins
import datetime as _dt

from . import sym
from .sym import SymBool, SymInt, Unsupported

US_PER_SEC = 10**6
US_PER_DAY = 86400 * US_PER_SEC
EPOCH_US = (_dt.datetime(1970, 1, 1) - _dt.datetime(1, 1, 1)) // _dt.timedelta(microseconds=1)
MAX_US = (_dt.datetime(9999, 12, 31, 23, 59, 59, 999999) - _dt.datetime(1, 1, 1)) // _dt.timedelta(microseconds=1)


def td_us(td):
    if isinstance(td, SymTimedelta):
        return td.us
    return (td.days * 86400 + td.seconds) * US_PER_SEC + td.microseconds


class SymTimedelta(_dt.timedelta):
    _vf_sym = True

    def __new__(cls, us):
        o = _dt.timedelta.__new__(cls, 0)
        o.us = us
        return o

    def _norm(self):
        """CPython's normalised (days, seconds, microseconds).  On the LIA back end they are fresh
        variables tied to the total by one linear constraint (0 <= seconds < 86400, 0 <= us < 10**6),
        which keeps the recombination `(days*86400 + seconds)*10**6 + microseconds` linear."""
        n = getattr(self, "_n", None)
        if n is None:
            if isinstance(self.us, sym.SymZ):
                import z3

                ctx = sym.cur()
                d, s, m = (ctx.fresh(k, z3.IntSort()) for k in ("td_days", "td_seconds", "td_us"))
                ctx.add(z3.And(self.us.t == d * US_PER_DAY + s * US_PER_SEC + m, s >= 0, s < 86400, m >= 0, m < US_PER_SEC))
                n = (sym.SymZ(d), sym.SymZ(s), sym.SymZ(m))
            else:
                n = (self.us // US_PER_DAY, (self.us % US_PER_DAY) // US_PER_SEC, self.us % US_PER_SEC)
            self._n = n
        return n

    days = property(lambda self: self._norm()[0])
    seconds = property(lambda self: self._norm()[1])
    microseconds = property(lambda self: self._norm()[2])

    def total_seconds(self):
        return self.us / 1e6  # SymInt / float -> SymFloat (as CPython: float division of the us count)

    def __hash__(self):
        return 0

    def __bool__(self):
        return builtins.bool(self.us != 0)

    def _o(self, o):
        return td_us(o) if isinstance(o, _dt.timedelta) else None

    def __eq__(self, o):
        u = self._o(o)
        return NotImplemented if u is None else self.us == u

    def __ne__(self, o):
        u = self._o(o)
        return NotImplemented if u is None else self.us != u

    def __lt__(self, o):
        u = self._o(o)
        return NotImplemented if u is None else self.us < u

    def __le__(self, o):
        u = self._o(o)
        return NotImplemented if u is None else self.us <= u

    def __gt__(self, o):
        u = self._o(o)
        return NotImplemented if u is None else self.us > u

    def __ge__(self, o):
        u = self._o(o)
        return NotImplemented if u is None else self.us >= u

    def __add__(self, o):
        if isinstance(o, SymDatetime) or (isinstance(o, _dt.datetime)):
            return SymDatetime.lift(o).__add__(self)
        u = self._o(o)
        return NotImplemented if u is None else SymTimedelta(self.us + u)

    __radd__ = __add__

    def __sub__(self, o):
        u = self._o(o)
        return NotImplemented if u is None else SymTimedelta(self.us - u)

    def __rsub__(self, o):
        if isinstance(o, _dt.datetime):
            return SymDatetime.lift(o).__sub__(self)
        u = self._o(o)
        return NotImplemented if u is None else SymTimedelta(u - self.us)

    def __neg__(self):
        return SymTimedelta(-self.us)

    def __abs__(self):
        return SymTimedelta(abs(self.us))

    def __floordiv__(self, o):
        if isinstance(o, _dt.timedelta):
            return self.us // td_us(o)
        if isinstance(o, (int, SymInt)):
            return SymTimedelta(self.us // o)
        return NotImplemented

    def __rfloordiv__(self, o):
        if isinstance(o, _dt.timedelta):
            return td_us(o) // self.us
        return NotImplemented

    def __mod__(self, o):
        if isinstance(o, _dt.timedelta):
            return SymTimedelta(self.us % td_us(o))
        return NotImplemented

    def __truediv__(self, o):
        if isinstance(o, _dt.timedelta):
            return self.us / builtins.float(td_us(o)) if not isinstance(o, SymTimedelta) else Unsupported
        raise Unsupported("timedelta / number")

    def __mul__(self, o):
        if isinstance(o, (int, SymInt)):
            return SymTimedelta(self.us * o)
        raise Unsupported("timedelta * float")

    __rmul__ = __mul__

    def __repr__(self):
        return "SymTimedelta(%r)" % (self.us,)

    def __str__(self):
        raise Unsupported("str(timedelta) is C code")

    def __reduce__(self):
        raise Unsupported("pickling a symbolic timedelta")

    def __copy__(self):
        return self

    def __deepcopy__(self, memo):
        return self


def _offset_minutes(tz, d=None):
    if tz is None:
        return None
    off = tz.utcoffset(d)
    if off is None:
        return None
    us = td_us(off)
    if isinstance(us, SymInt):
        raise Unsupported("symbolic tzinfo object")
    if us % (60 * US_PER_SEC):
        raise Unsupported("sub-minute UTC offset")
    return us // (60 * US_PER_SEC)


class SymTz(_dt.tzinfo):
    """fixed offset in (symbolic) minutes"""

    def __init__(self, minutes):
        self.minutes = minutes

    def utcoffset(self, d):
        return SymTimedelta(self.minutes * 60 * US_PER_SEC)

    def dst(self, d):
        return None

    def tzname(self, d):
        return "sym"


class SymDatetime(_dt.datetime):
    _vf_sym = True

    def __new__(cls, us, off):
        o = _dt.datetime.__new__(cls, 1, 1, 1)
        o.us = us  # microseconds since 0001-01-01 on the local clock
        o.off = off  # minutes east of UTC (int / SymInt) or None (naive)
        return o

    @staticmethod
    def lift(d):
        if isinstance(d, SymDatetime):
            return d
        naive = d.replace(tzinfo=None)
        us = (naive - _dt.datetime(1, 1, 1)) // _dt.timedelta(microseconds=1)
        return SymDatetime(us, _offset_minutes(d.tzinfo, d))

    def utc_us(self):
        if self.off is None:
            raise TypeError("naive datetime")
        return self.us - self.off * 60 * US_PER_SEC

    tzinfo = property(lambda self: None if self.off is None else SymTz(self.off))
    microsecond = property(lambda self: self.us % US_PER_SEC)

    def utcoffset(self):
        return None if self.off is None else SymTimedelta(self.off * 60 * US_PER_SEC)

    def __hash__(self):
        return 0

    def _check_range(self, us):
        if not (us >= 0 and us <= MAX_US):
            raise OverflowError("date value out of range")

    def __add__(self, o):
        if not isinstance(o, _dt.timedelta):
            return NotImplemented
        us = self.us + td_us(o)
        self._check_range(us)
        return SymDatetime(us, self.off)

    __radd__ = __add__

    def __sub__(self, o):
        if isinstance(o, _dt.datetime):
            o = SymDatetime.lift(o)
            if (self.off is None) != (o.off is None):
                raise TypeError("can't subtract offset-naive and offset-aware datetimes")
            if self.off is None:
                return SymTimedelta(self.us - o.us)
            return SymTimedelta(self.utc_us() - o.utc_us())
        if isinstance(o, _dt.timedelta):
            us = self.us - td_us(o)
            self._check_range(us)
            return SymDatetime(us, self.off)
        return NotImplemented

    def __rsub__(self, o):
        if isinstance(o, _dt.datetime):
            return SymDatetime.lift(o).__sub__(self)
        return NotImplemented

    def _cmp_us(self, o):
        if not isinstance(o, _dt.datetime):
            return None
        o = SymDatetime.lift(o)
        if (self.off is None) != (o.off is None):
            return "mixed"
        if self.off is None:
            return self.us, o.us
        return self.utc_us(), o.utc_us()

    def __eq__(self, o):
        r = self._cmp_us(o)
        if r is None:
            return NotImplemented
        if r == "mixed":
            return False
        return r[0] == r[1]

    def __ne__(self, o):
        r = self.__eq__(o)
        return r if r is NotImplemented else sym.sym_not(r)

    def __lt__(self, o):
        r = self._cmp_us(o)
        if r is None:
            return NotImplemented
        if r == "mixed":
            raise TypeError("can't compare offset-naive and offset-aware datetimes")
        return r[0] < r[1]

    def astimezone(self, tz=None):
        off = _offset_minutes(tz)
        if self.off is None or off is None:
            raise Unsupported("astimezone of / to a naive datetime (local time zone is environment)")
        return SymDatetime(self.utc_us() + off * 60 * US_PER_SEC, off)

    def replace(self, **kw):
        us, off = self.us, self.off
        if "microsecond" in kw:
            us = us - us % US_PER_SEC + kw.pop("microsecond")
        if "tzinfo" in kw:
            off = _offset_minutes(kw.pop("tzinfo"))
        if kw:
            raise Unsupported("datetime.replace(%s)" % ", ".join(kw))
        return SymDatetime(us, off)

    def isoformat(self, *a, **k):
        # C code: modelled as an opaque injective function of the (whole-second, naive) instant
        if a or k or self.off is not None:
            raise Unsupported("isoformat with arguments / of an aware datetime")
        from .symstr import SymText

        if not sym.B((self.us % US_PER_SEC) == 0):
            raise Unsupported("isoformat of a datetime with microseconds")
        return SymText([("iso", self.us)])

    def __repr__(self):
        return "SymDatetime(%r, %r)" % (self.us, self.off)

    def __str__(self):
        raise Unsupported("str(datetime) is C code")

    def __reduce__(self):
        raise Unsupported("pickling a symbolic datetime")

    def __copy__(self):
        return self

    def __deepcopy__(self, memo):
        return self


class _TdMeta(type):
    def __instancecheck__(cls, inst):
        return isinstance(inst, _dt.timedelta)

    def __subclasscheck__(cls, sub):
        return issubclass(sub, _dt.timedelta)

    def __eq__(cls, other):
        return other is cls or other is _dt.timedelta

    def __ne__(cls, other):
        return not cls.__eq__(other)

    def __hash__(cls):
        return hash(_dt.timedelta)


class TimedeltaShim(metaclass=_TdMeta):
    """stands for `timedelta` inside betterproto/__init__: constructor aware of proxies"""

    min, max, resolution = _dt.timedelta.min, _dt.timedelta.max, _dt.timedelta.resolution

    def __new__(cls, days=0, seconds=0, microseconds=0, milliseconds=0, minutes=0, hours=0, weeks=0):
        args = (days, seconds, microseconds, milliseconds, minutes, hours, weeks)
        if not any(getattr(a, "_vf_sym", False) for a in args):
            return _dt.timedelta(*args)
        total = 0
        for a, scale in zip(args, (US_PER_DAY, US_PER_SEC, 1, 1000, 60 * US_PER_SEC, 3600 * US_PER_SEC, 7 * US_PER_DAY)):
            if getattr(a, "_vf_float", False):
                if scale != 1:
                    raise Unsupported("float timedelta argument other than microseconds")
                a = a.round_half_even_int()  # CPython rounds float microseconds half-to-even
            elif isinstance(a, builtins.float):
                if a != int(a):
                    raise Unsupported("fractional float timedelta argument")
                a = int(a)
            total = total + a * scale
        lim = 999999999 * US_PER_DAY
        if not (total >= -lim and total <= lim + US_PER_DAY - 1):
            raise OverflowError("days=%s; must have magnitude <= 999999999" % "?")
        return SymTimedelta(total)


def install_time(mod):
    mod.timedelta = TimedeltaShim
    mod.DATETIME_ZERO = SymDatetime.lift(mod.datetime_default_gen())
    return [
        "betterproto.timedelta -> constructor model (integer microsecond arithmetic, round-half-even of float microseconds)",
        "betterproto.DATETIME_ZERO -> the same instant as a SymDatetime (us since 0001-01-01 + fixed UTC offset), so that datetime arithmetic stays symbolic",
    ]
