"""The stated finite catalogue of message shapes (S1 single-field, S2 combinations)."""
from .shapes import F, Catalogue, EnumDef, Shape, SCALARS, MAP_KEY_KINDS, STD_ENUM, WRAPPER_OF

LABELS = ["singular", "optional", "repeated", "oneof"]


def _n(f):
    f.narrow = True
    return f


def s1(kind, label, number=1):
    """single-field shape of a kind in one of the four positions"""
    kw = {}
    if kind == "enum":
        kw["enum"] = "E"
    if kind == "message":
        kw["msg"] = "Leaf"
    if kind.startswith("wrap:"):
        kw["wraps"] = kind[5:]
        kind = "message"
    shapes = [Shape("Leaf", [_n(F("x", 1, "int32")), _n(F("s", 2, "string"))])]
    if label == "oneof":
        fields = [F("v", number, kind, group="g", **kw), F("other", number + 1, "int32", group="g")]
    else:
        fields = [F("v", number, kind, label, **kw)]
    shapes.append(Shape("M", fields))
    return Catalogue("s1-%s-%s-%d" % (kw.get("wraps") and "wrap_" + kw["wraps"] or kind, label, number), shapes, [STD_ENUM])


def s1_map(key, vkind):
    kw = {}
    if vkind == "enum":
        kw["enum"] = "E"
    if vkind == "message":
        kw["msg"] = "Leaf"
    shapes = [Shape("Leaf", [_n(F("x", 1, "int32")), _n(F("s", 2, "string"))]), Shape("M", [F("v", 1, vkind, "map", key=key, **kw)])]
    return Catalogue("s1map-%s-%s" % (key, vkind), shapes, [STD_ENUM])


def s2(name):
    """fixed combination shapes"""
    E = [STD_ENUM]
    leaf = Shape("Leaf", [_n(F("x", 1, "int32")), _n(F("s", 2, "string"))])
    if name == "mixed":
        # mixed scalars in non-ascending declaration order, boundary field numbers
        return Catalogue("s2-mixed", [Shape("M", [
            F("c", 2048, "sint64"), _n(F("a", 1, "int32")), _n(F("b", 16, "uint64")), F("d", 15, "bool"),
            _n(F("s", (1 << 29) - 1, "string")), _n(F("y", 3, "bytes"))])], E)  # fmt: skip
    if name == "oneofs":
        return Catalogue("s2-oneofs", [leaf, Shape("M", [
            _n(F("p", 1, "int32")),
            _n(F("a", 2, "int32", group="g")), _n(F("b", 3, "string", group="g")), F("c", 4, "enum", group="g", enum="E"),
            _n(F("d", 5, "message", group="g", msg="Leaf")),
            F("u", 6, "bool", group="h"), _n(F("w", 7, "bytes", group="h")),
            _n(F("q", 8, "string"))])], E)  # fmt: skip
    if name == "nested":
        return Catalogue("s2-nested", [leaf, Shape("Mid", [F("leaf", 1, "message", msg="Leaf"), _n(F("n", 2, "sint32"))]),
                                       Shape("M", [F("mid", 1, "message", msg="Mid"), F("leaf", 2, "message", msg="Leaf"), F("t", 3, "uint32")])], E)  # fmt: skip
    if name == "recursive":
        return Catalogue("s2-recursive", [Shape("M", [_n(F("v", 1, "int32")), F("next", 2, "message", msg="M"), F("kids", 3, "message", "repeated", msg="M")])], E)  # fmt: skip
    if name == "mutual":
        return Catalogue("s2-mutual", [Shape("M", [_n(F("v", 1, "int32")), F("b", 2, "message", msg="B")]),
                                       Shape("B", [F("s", 1, "string"), F("a", 2, "message", msg="M")])], E)  # fmt: skip
    if name == "repmsg":
        return Catalogue("s2-repmsg", [leaf, Shape("M", [F("items", 1, "message", "repeated", msg="Leaf"), _n(F("n", 2, "int64"))])], E)
    if name == "mapmsg":
        return Catalogue("s2-mapmsg", [leaf, Shape("M", [F("m", 1, "message", "map", key="string", msg="Leaf"), F("k", 2, "int32", "map", key="int32")])], E)
    if name == "optionals":
        return Catalogue("s2-optionals", [leaf, Shape("M", [
            F("i", 1, "int32", "optional"), F("s", 2, "string", "optional"), F("y", 3, "bytes", "optional"), F("b", 4, "bool", "optional"),
            F("e", 5, "enum", "optional", enum="E"), F("m", 6, "message", "optional", msg="Leaf"), F("d", 7, "double", "optional")])], E)  # fmt: skip
    if name == "wrappers":
        return Catalogue("s2-wrappers", [Shape("M", [
            F("i", 1, "message", wraps="int32"), F("s", 2, "message", wraps="string"), F("b", 3, "message", wraps="bool"),
            F("u", 4, "message", wraps="uint64"), F("y", 5, "message", wraps="bytes"), F("d", 6, "message", wraps="double")])], E)  # fmt: skip
    if name == "wrappers2":
        # two wrappers of the same wrapped type next to each other (state shared between wrapper decodes would show here)
        return Catalogue("s2-wrappers2", [Shape("M", [
            F("a", 1, "message", wraps="int32"), F("b", 2, "message", wraps="int32"),
            F("c", 3, "message", wraps="string"), F("d", 4, "message", wraps="string")])], E)  # fmt: skip
    if name == "names":
        # hand-written dataclasses may use soft keywords and builtin names as field names
        return Catalogue("s2-names", [Shape("M", [_n(F("type", 1, "int32")), _n(F("match", 2, "string")), F("case", 3, "bool"), _n(F("id", 4, "int64")),
                                                  _n(F("list", 5, "uint32", "repeated")), _n(F("str", 6, "string", "optional"))])], E)  # fmt: skip
    if name == "nested-oneof":
        # a sub-message whose only content can be a oneof member (possibly holding its default): its presence hangs on that member
        return Catalogue("s2-nested-oneof", [Shape("Inner", [_n(F("num", 1, "int32", group="g")), _n(F("txt", 2, "string", group="g"))]), Shape("M", [
            F("inner", 1, "message", msg="Inner"), _n(F("tail", 2, "int32")), F("rep", 3, "message", "repeated", msg="Inner"),
            F("m", 4, "message", "map", key="string", msg="Inner")])], E)  # fmt: skip
    if name == "mapchoice":
        # map values / list elements that are messages whose content is a oneof member (possibly holding its default) or an empty sub-message
        return Catalogue("s2-mapchoice", [leaf, Shape("Choice", [_n(F("count", 1, "int32", group="g")), _n(F("label", 2, "string", group="g")), F("leaf", 3, "message", group="g", msg="Leaf")]),
                                          Shape("M", [F("m", 1, "message", "map", key="string", msg="Choice"), F("r", 2, "message", "repeated", msg="Choice")])], E)  # fmt: skip
    if name == "oneofs-nil":
        # oneof groups with members of a message type without fields (assigning one is all that can be said about it)
        return Catalogue("s2-oneofs-nil", [leaf, Shape("Nil", []), Shape("M", [
            _n(F("p", 1, "int32")),
            _n(F("a", 2, "int32", group="g")), F("n", 3, "message", group="g", msg="Nil"), _n(F("d", 4, "message", group="g", msg="Leaf")),
            F("u", 5, "bool", group="h"), F("v", 6, "message", group="h", msg="Nil")])], E)  # fmt: skip
    if name == "emptymsg":
        # sub-messages of a type without fields (google.protobuf.Empty and the like): presence is all they carry
        return Catalogue("s2-emptymsg", [Shape("Nil", []), Shape("M", [
            F("e", 1, "message", msg="Nil"), F("x", 2, "message", group="g", msg="Nil"), _n(F("y", 3, "int32", group="g")),
            F("o", 4, "message", "optional", msg="Nil"), F("r", 5, "message", "repeated", msg="Nil"), F("m", 6, "message", "map", key="bool", msg="Nil")])], E)  # fmt: skip
    if name == "maps2":
        # map fields whose Python key/value classes coincide while their protobuf kinds differ
        return Catalogue("s2-maps2", [Shape("M", [F("a", 1, "int32", "map", key="string"), F("b", 2, "sint32", "map", key="string"),
                                                  F("c", 3, "string", "map", key="int32"), F("d", 4, "string", "map", key="sint64"),
                                                  F("e", 5, "fixed32", "map", key="string")])], E)  # fmt: skip
    if name == "packed":
        return Catalogue("s2-packed", [Shape("M", [
            F("a", 1, "sint32", "repeated"), F("f", 2, "fixed32", "repeated"), F("b", 3, "bool", "repeated"),
            F("e", 4, "enum", "repeated", enum="E"), F("s", 5, "string", "repeated"), F("d", 6, "double", "repeated")])], E)  # fmt: skip
    raise KeyError(name)


S2_NAMES = ["mixed", "oneofs", "nested", "recursive", "mutual", "repmsg", "mapmsg", "optionals", "wrappers", "wrappers2", "names", "maps2", "emptymsg", "nested-oneof", "mapchoice", "packed"]
S1_KINDS = SCALARS + ["enum", "message"] + ["wrap:" + k for k in WRAPPER_OF]
S1_MAP_VALUES = ["int32", "string", "bytes", "enum", "message", "double"]


def get(spec):
    """catalogue from its JSON-able description"""
    if spec[0] == "s1":
        return s1(*spec[1:])
    if spec[0] == "s1map":
        return s1_map(*spec[1:])
    return s2(spec[1])
