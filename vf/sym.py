"""SHADOW engine core: path context + proxy values (ints, bools, bytes) carrying z3 terms.

The real CPython interpreter executes the real code of /repo; only leaf values are
replaced by the proxies below.  Every `__bool__` of a symbolic boolean is a solver
decision (fork); the driver (vf.explore) re-executes the harness for every feasible
alternative (stateless DFS).
"""
import builtins
import time

import z3

W = 96  # width of the bit-vector standing for a Python int (no-overflow obligations are checked)
_LO, _HI = -(1 << (W - 1)), (1 << (W - 1)) - 1


class PathAbort(BaseException):
    """current path is infeasible (or cut by an assumption)"""


class EngineLimit(BaseException):
    """solver said unknown / a cap was hit / an operation is not modelled -> inconclusive"""


class Unsupported(EngineLimit):
    pass


CTX = None  # current path context (None => native execution, proxies must not exist)


def cur():
    if CTX is None:
        raise RuntimeError("symbolic value used outside of a path context")
    return CTX


class Ctx:
    def __init__(self, prefix=(), qtimeout_ms=20000, max_decisions=20000):
        self.s = z3.Solver()
        self.s.set("timeout", qtimeout_ms)
        self.prefix = list(prefix)
        self.dec = []  # (taken, alt_feasible, hash)
        self.model = None
        self.queries = 0
        self.solver_s = 0.0
        self.oblig = []
        self.nfresh = 0
        self.max_decisions = max_decisions
        self.cuts = []  # stated concretisations / cuts on this path

    # -- solver plumbing -------------------------------------------------
    def check(self, *assumptions):
        t0 = time.perf_counter()
        r = self.s.check(*assumptions)
        self.solver_s += time.perf_counter() - t0
        self.queries += 1
        return r

    def add(self, c):
        self.s.add(c)
        if self.model is not None and not z3.is_true(self.model.eval(c, model_completion=True)):
            self.model = None

    def fresh(self, name, sort):
        self.nfresh += 1
        return z3.Const(f"{name}!{self.nfresh}", sort)

    def get_model(self):
        if self.model is None:
            r = self.check()
            if r == z3.unsat:
                raise PathAbort("infeasible")
            if r != z3.sat:
                raise EngineLimit("solver unknown on path condition")
            self.model = self.s.model()
        return self.model

    # -- decisions ---------------------------------------------------------
    def branch(self, cond):
        cond = z3.simplify(cond)
        if z3.is_true(cond):
            return True
        if z3.is_false(cond):
            return False
        i = len(self.dec)
        if i >= self.max_decisions:
            raise EngineLimit("decision cap")
        h = cond.hash()
        if i < len(self.prefix):
            taken, ph = self.prefix[i]
            if ph != h:
                raise EngineLimit("replay diverged (non-deterministic harness)")
            self.dec.append((taken, False, h))
            self.s.add(cond if taken else z3.Not(cond))
            self.model = None
            return taken
        m = self.get_model()
        mv = z3.is_true(m.eval(cond, model_completion=True))
        other = z3.Not(cond) if mv else cond
        r = self.check(other)
        if r == z3.unknown:
            raise EngineLimit("solver unknown on branch")
        self.dec.append((mv, r == z3.sat, h))
        self.s.add(cond if mv else z3.Not(cond))
        return mv

    def assume(self, cond):
        if isinstance(cond, SymBool):
            cond = cond.t
        elif isinstance(cond, bool):
            if not cond:
                raise PathAbort("assume False")
            return
        cond = z3.simplify(cond)
        if z3.is_true(cond):
            return
        self.add(cond)
        if self.model is None:
            self.get_model()

    def must(self, cond):
        """None if cond holds for every value on this path, else a model violating it."""
        if isinstance(cond, SymBool):
            cond = cond.t
        elif isinstance(cond, bool):
            return None if cond else self.get_model()
        cond = z3.simplify(cond)
        if z3.is_true(cond):
            return None
        r = self.check(z3.Not(cond))
        if r == z3.unsat:
            return None
        if r == z3.unknown:
            raise EngineLimit("solver unknown on property query")
        return self.s.model()

    def discharge_obligations(self):
        """no-overflow obligations: BV(W) arithmetic must coincide with Python's int on this path"""
        if not self.oblig:
            return
        r = self.check(z3.Not(z3.And(self.oblig)))
        if r == z3.sat:
            raise EngineLimit("BV%d overflow possible on this path: int model not exact" % W)
        if r == z3.unknown:
            raise EngineLimit("solver unknown on overflow obligations")


def B(cond):
    """decide a z3 Bool now (fork)"""
    if isinstance(cond, bool):
        return cond
    if isinstance(cond, SymBool):
        cond = cond.t
    if CTX is None:
        # native twin: spec models run on concrete values, every condition folds to a constant
        c = z3.simplify(cond)
        if z3.is_true(c):
            return True
        if z3.is_false(c):
            return False
    return cur().branch(cond)


# ---------------------------------------------------------------------------
# ints and bools


def is_sym(v):
    return isinstance(v, (SymInt, SymBool)) or getattr(v, "_vf_sym", False)


def bv(v):
    """z3 BV(W) term of an int-like value, or None"""
    if isinstance(v, SymInt):
        return v.t
    if isinstance(v, SymBool):
        return z3.If(v.t, z3.BitVecVal(1, W), z3.BitVecVal(0, W))
    if isinstance(v, bool):
        return z3.BitVecVal(int(v), W)
    if type(v) is int or (isinstance(v, int) and not getattr(v, "_vf_sym", False)):
        v = int(v)
        if not (_LO <= v <= _HI):
            raise Unsupported("constant beyond BV%d" % W)
        return z3.BitVecVal(v, W)
    return None


def mk(t):
    t = z3.simplify(t)
    if z3.is_bv_value(t):
        return t.as_signed_long()
    return SymInt(t)


def mkb(t):
    t = z3.simplify(t)
    if z3.is_true(t):
        return True
    if z3.is_false(t):
        return False
    return SymBool(t)


def _cmp(op):
    def f(self, o):
        b = bv(o)
        if b is None:
            return NotImplemented
        return mkb(op(bv(self), b))

    return f


def _oblig(c):
    ctx = CTX
    if ctx is not None:
        c = z3.simplify(c)
        if not z3.is_true(c):
            ctx.oblig.append(c)


def _add(a, b):
    _oblig(z3.And(z3.BVAddNoOverflow(a, b, True), z3.BVAddNoUnderflow(a, b)))
    return a + b


def _sub(a, b):
    _oblig(z3.And(z3.BVSubNoOverflow(a, b), z3.BVSubNoUnderflow(a, b, True)))
    return a - b


def _mul(a, b):
    _oblig(z3.And(z3.BVMulNoOverflow(a, b, True), z3.BVMulNoUnderflow(a, b)))
    return a * b


def _shl(a, b):
    if not z3.is_bv_value(z3.simplify(b)):
        raise Unsupported("shift by symbolic amount")
    k = z3.simplify(b).as_signed_long()
    if k < 0:
        raise ValueError("negative shift count")
    if k >= W:
        raise Unsupported("shift beyond BV width")
    r = a << b
    _oblig((r >> b) == a)
    return r


def _shr(a, b):
    bb = z3.simplify(b)
    if z3.is_bv_value(bb):
        k = bb.as_signed_long()
        if k < 0:
            raise ValueError("negative shift count")
        if k >= W:
            return z3.If(a < 0, z3.BitVecVal(-1, W), z3.BitVecVal(0, W))
        return a >> b
    raise Unsupported("shift by symbolic amount")


def _floordiv(a, b):
    # Python floor division on BV terms (b != 0 decided by caller)
    q = a / b  # signed, truncating
    r = z3.SRem(a, b)
    return z3.If(z3.And(r != 0, (r < 0) != (b < 0)), q - 1, q)


def _mod(a, b):
    r = z3.SRem(a, b)
    return z3.If(z3.And(r != 0, (r < 0) != (b < 0)), r + b, r)


def _bin(op, rev=False):
    def f(self, o):
        b = bv(o)
        if b is None:
            return NotImplemented
        a = bv(self)
        return mk(op(b, a) if rev else op(a, b))

    return f


def _divlike(op, rev=False):
    def f(self, o):
        b = bv(o)
        if b is None:
            return NotImplemented
        a = bv(self)
        if rev:
            a, b = b, a
        if B(b == 0):
            raise ZeroDivisionError("integer division or modulo by zero")
        return mk(op(a, b))

    return f


class SymRat:
    """exact rational n/d with concrete d > 0 (only `math.ceil(bit_length()/7)` needs it)"""

    _vf_sym = True

    def __init__(self, num, den):
        self.num, self.den = num, den

    def __ceil__(self):
        return (self.num + (self.den - 1)) // self.den

    def __floor__(self):
        return self.num // self.den


class _IntOps:
    __slots__ = ()
    _vf_sym = True

    __eq__ = _cmp(lambda a, b: a == b)
    __ne__ = _cmp(lambda a, b: a != b)
    __lt__ = _cmp(lambda a, b: a < b)
    __le__ = _cmp(lambda a, b: a <= b)
    __gt__ = _cmp(lambda a, b: a > b)
    __ge__ = _cmp(lambda a, b: a >= b)
    __add__ = _bin(_add)
    __radd__ = _bin(_add, True)
    __sub__ = _bin(_sub)
    __rsub__ = _bin(_sub, True)
    __mul__ = _bin(_mul)
    __rmul__ = _bin(_mul, True)
    __and__ = _bin(lambda a, b: a & b)
    __rand__ = __and__
    __or__ = _bin(lambda a, b: a | b)
    __ror__ = __or__
    __xor__ = _bin(lambda a, b: a ^ b)
    __rxor__ = __xor__
    __lshift__ = _bin(_shl)
    __rlshift__ = _bin(_shl, True)
    __rshift__ = _bin(_shr)
    __rrshift__ = _bin(_shr, True)
    __floordiv__ = _divlike(_floordiv)
    __rfloordiv__ = _divlike(_floordiv, True)
    __mod__ = _divlike(_mod)
    __rmod__ = _divlike(_mod, True)

    def __divmod__(self, o):
        return self // o, self % o

    def __rdivmod__(self, o):
        return o // self, o % self

    def __truediv__(self, o):
        if type(o) is int and o > 0:
            return SymRat(SymInt(bv(self)), o)
        if isinstance(o, float) or getattr(o, "_vf_float", False):
            from .symfloat import SymFloat

            return SymFloat.from_int(self) / o
        raise Unsupported("true division of a symbolic int")

    def __rtruediv__(self, o):
        raise Unsupported("true division by a symbolic int")

    def __invert__(self):
        return mk(~bv(self))

    def __neg__(self):
        return mk(_sub(z3.BitVecVal(0, W), bv(self)))

    def __pos__(self):
        return mk(bv(self))

    def __abs__(self):
        a = bv(self)
        return mk(z3.If(a < 0, _sub(z3.BitVecVal(0, W), a), a))

    def __hash__(self):
        return 0

    def __index__(self):
        return realize_int(bv(self))

    __int__ = __index__

    def __float__(self):
        raise Unsupported("float() of a symbolic int reached C code")

    def __trunc__(self):
        return SymInt(bv(self))

    def bit_length(self):
        a = bv(self)
        a = z3.If(a < 0, -a, a)
        r = z3.BitVecVal(0, W)
        for i in range(W - 1):
            r = z3.If(z3.Extract(i, i, a) == 1, z3.BitVecVal(i + 1, W), r)
        return mk(r)

    def to_bytes(self, length=1, byteorder="big", *, signed=False):
        if isinstance(length, _IntOps):
            length = length.__index__()
        me = SymInt(bv(self))
        if signed:
            lo, hi = -(1 << (8 * length - 1)), 1 << (8 * length - 1)
        else:
            lo, hi = 0, 1 << (8 * length)
            if me < 0:
                raise OverflowError("can't convert negative int to unsigned")
        if not (me >= lo and me < hi):
            raise OverflowError("int too big to convert")
        items = [z3.Extract(8 * i + 7, 8 * i, me.t) for i in range(length)]
        if byteorder == "big":
            items.reverse()
        return SymBytes(items)

    def __format__(self, spec):
        return "<sym>"

    def __str__(self):
        from .symstr import SymDecStr

        return SymDecStr(SymInt(bv(self)))

    def __round__(self, n=None):
        return SymInt(bv(self))


class SymInt(_IntOps):
    __slots__ = ("t",)

    def __init__(self, t):
        self.t = t

    def __bool__(self):
        return cur().branch(self.t != 0)

    def __repr__(self):
        return f"SymInt({self.t})"


class SymBool(_IntOps):
    __slots__ = ("t",)

    def __init__(self, t):
        self.t = t

    def __bool__(self):
        return cur().branch(self.t)

    def __eq__(self, o):
        if isinstance(o, SymBool):
            return mkb(self.t == o.t)
        if isinstance(o, bool):
            return mkb(self.t if o else z3.Not(self.t))
        return _IntOps.__eq__(self, o)

    def __ne__(self, o):
        r = self.__eq__(o)
        if r is NotImplemented:
            return r
        return not r if isinstance(r, bool) else mkb(z3.Not(r.t))

    def __hash__(self):
        return 0

    def __invert__(self):
        return mk(~bv(self))

    def __str__(self):
        raise Unsupported("str() of a symbolic bool")

    def __repr__(self):
        return f"SymBool({self.t})"


def sym_not(x):
    if isinstance(x, SymBool):
        return mkb(z3.Not(x.t))
    return not x


def sym_and(*xs):
    ts = []
    for x in xs:
        if isinstance(x, SymBool):
            ts.append(x.t)
        elif not x:
            return False
    return mkb(z3.And(ts)) if ts else True


def sym_or(*xs):
    ts = []
    for x in xs:
        if isinstance(x, SymBool):
            ts.append(x.t)
        elif x:
            return True
    return mkb(z3.Or(ts)) if ts else False


REALIZE_CAP = 64


def realize_int(t, cap=None):
    """fork over the feasible values of a BV term (ascending); more than `cap` -> inconclusive"""
    t = z3.simplify(t)
    if z3.is_bv_value(t):
        return t.as_signed_long()
    ctx = cur()
    cap = cap or REALIZE_CAP
    # replaying a recorded prefix: decisions are replayed by branch() below; enumeration must
    # be deterministic, so it is done with the solver on the same path condition every time
    vals = []
    s = ctx.s
    for _ in range(cap + 1):
        r = ctx.check(*[t != v for v in vals])
        if r == z3.unknown:
            raise EngineLimit("solver unknown while enumerating values")
        if r != z3.sat:
            break
        vals.append(s.model().eval(t, model_completion=True).as_signed_long())
    else:
        raise EngineLimit("more than %d feasible values at a concretisation point" % cap)
    if not vals:
        raise PathAbort("infeasible")
    vals.sort()
    for v in vals[:-1]:
        if ctx.branch(t == v):
            return v
    ctx.add(t == vals[-1])
    return vals[-1]


# ---------------------------------------------------------------------------
# bytes


def _c8(x):
    if isinstance(x, int):
        return x
    x = z3.simplify(x)
    return x.as_long() if z3.is_bv_value(x) else x


def term8(x):
    return z3.BitVecVal(x, 8) if isinstance(x, int) else x


class SymBytes(bytes):
    """bytes whose items are 8-bit terms; the length is concrete per path"""

    _vf_sym = True

    def __new__(cls, items=()):
        o = bytes.__new__(cls, b"")
        o.items = [_c8(x) for x in items]
        return o

    @staticmethod
    def lift(b):
        if isinstance(b, SymBytes):
            return b
        if isinstance(b, (bytes, bytearray, memoryview)):
            return SymBytes(list(bytes(b)))
        return None

    def is_concrete(self):
        return all(isinstance(x, int) for x in self.items)

    def concrete(self):
        return builtins.bytes(self.items) if self.is_concrete() else None

    def __len__(self):
        return len(self.items)

    def __bool__(self):
        return len(self.items) > 0

    def __bytes__(self):
        return self

    def __add__(self, o):
        o = SymBytes.lift(o)
        if o is None:
            return NotImplemented
        return SymBytes(self.items + o.items)

    def __radd__(self, o):
        o = SymBytes.lift(o)
        if o is None:
            return NotImplemented
        return SymBytes(o.items + self.items)

    def __iadd__(self, o):
        return self.__add__(o)

    def __mul__(self, n):
        return SymBytes(self.items * int(n))

    __rmul__ = __mul__

    def __getitem__(self, i):
        if isinstance(i, slice):
            a, b, st = i.start, i.stop, i.step
            if isinstance(a, _IntOps):
                a = a.__index__()
            if isinstance(b, _IntOps):
                b = b.__index__()
            return SymBytes(self.items[slice(a, b, st)])
        if isinstance(i, _IntOps):
            i = i.__index__()
        x = self.items[i]
        return x if isinstance(x, int) else mk(z3.ZeroExt(W - 8, x))

    def __iter__(self):
        for i in range(len(self.items)):
            yield self[i]

    def term(self, i):
        return term8(self.items[i])

    def eqterm(self, o):
        if len(o) != len(self):
            return z3.BoolVal(False)
        cs = []
        for a, b in zip(self.items, o.items):
            if isinstance(a, int) and isinstance(b, int):
                if a != b:
                    return z3.BoolVal(False)
            else:
                cs.append(term8(a) == term8(b))
        return z3.And(cs) if cs else z3.BoolVal(True)

    def __eq__(self, o):
        o = SymBytes.lift(o)
        if o is None:
            return NotImplemented
        return mkb(self.eqterm(o))

    def __ne__(self, o):
        o = SymBytes.lift(o)
        if o is None:
            return NotImplemented
        return mkb(z3.Not(self.eqterm(o)))

    def __hash__(self):
        return 0

    def __contains__(self, x):
        raise Unsupported("`in` on symbolic bytes")

    def decode(self, encoding="utf-8", errors="strict"):
        from .symstr import utf8_decode

        if encoding.lower().replace("-", "") not in ("utf8",) or errors != "strict":
            raise Unsupported("decode(%r, %r)" % (encoding, errors))
        return utf8_decode(self)

    def __repr__(self):
        return f"SymBytes({self.items})"

    def __format__(self, spec):
        return "<symbytes>"

    def __str__(self):
        return "<symbytes>"

    def hex(self, *a):
        raise Unsupported("hex of symbolic bytes")

    def __reduce__(self):
        raise Unsupported("pickling symbolic bytes")


def to_bytes_value(b):
    """SymBytes for anything bytes-like"""
    r = SymBytes.lift(b)
    if r is None:
        raise TypeError("a bytes-like object is required, not %r" % type(b).__name__)
    return r
