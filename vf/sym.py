"""SHADOW engine core: path context + proxy values (ints, bools, bytes) carrying z3 terms.

The real CPython interpreter executes the real code of /repo; only leaf values are
replaced by the proxies below.  Every `__bool__` of a symbolic boolean is a solver
decision (fork); the driver (vf.explore) re-executes the harness for every feasible
alternative (stateless DFS).
"""
import builtins
import sys
import time

import z3

W = 96  # width of the bit-vector standing for a Python int (no-overflow obligations are checked)
_LO, _HI = -(1 << (W - 1)), (1 << (W - 1)) - 1


class PathAbort(BaseException):
    """current path is infeasible (or cut by an assumption)"""


class EngineLimit(BaseException):
    """solver said unknown / a cap was hit / an operation is not modelled -> inconclusive"""


class Unsupported(EngineLimit):
    pass


CTX = None  # current path context (None => native execution, proxies must not exist)


def cur():
    if CTX is None:
        raise RuntimeError("symbolic value used outside of a path context")
    return CTX


class Ctx:
    def __init__(self, prefix=(), qtimeout_ms=20000, max_decisions=20000):
        self.s = z3.Solver()
        self.s.set("timeout", qtimeout_ms)
        self.prefix = list(prefix)
        self.dec = []  # (taken, alt_feasible, hash)
        self.model = None
        self.queries = 0
        self.solver_s = 0.0
        self.oblig = []
        self.nfresh = 0
        self.max_decisions = max_decisions
        self.cuts = []  # stated concretisations / cuts on this path
        self.decided = {}  # ast id -> (term kept alive, outcome) : conditions already decided on this path
        self.divcache = {}  # (dividend ast id, constant) -> (dividend, q, r)
        self.arith_first = True
        self.cvc5_fallback = True
        self.cvc5_queries = 0
        self._ext_model = None

    # -- solver plumbing -------------------------------------------------
    def check(self, *assumptions):
        t0 = time.perf_counter()
        self._ext_model = None
        if self.divcache and self.arith_first:
            # multiply / divide-by-constant constraints stall z3's bit-blaster; cvc5's integer
            # encoding of the same BV semantics (--solve-bv-as-int=sum) decides them quickly
            r = self._cvc5(assumptions, 20000)
            if r == z3.unknown:
                r = self.s.check(*assumptions)
        else:
            r = self.s.check(*assumptions)
            if r == z3.unknown and self.cvc5_fallback:
                r = self._cvc5(assumptions, 60000)
        self.solver_s += time.perf_counter() - t0
        self.queries += 1
        return r

    def last_model(self):
        """model of the last satisfiable check()"""
        return self._ext_model if self._ext_model is not None else self.s.model()

    def _cvc5(self, assumptions, tlimit_ms):
        try:
            import cvc5
        except ImportError:
            return z3.unknown
        self.cvc5_queries += 1
        tmp = z3.Solver()
        tmp.add(self.s.assertions())
        for a in assumptions:
            tmp.add(a)
        text = "(set-option :produce-models true)\n(set-logic ALL)\n" + tmp.to_smt2() + "\n(get-model)\n"
        try:
            slv = cvc5.Solver()
            slv.setOption("solve-bv-as-int", "sum")
            slv.setOption("tlimit-per", str(int(tlimit_ms)))
            slv.setOption("produce-models", "true")
            parser = cvc5.InputParser(slv)
            parser.setStringInput(cvc5.InputLanguage.SMT_LIB_2_6, text, "query")
            symm = parser.getSymbolManager()
            outs = []
            while True:
                cmd = parser.nextCommand()
                if cmd.isNull():
                    break
                outs.append(cmd.invoke(slv, symm))
        except Exception:
            return z3.unknown
        verdict = None
        model_text = ""
        for o in outs:
            t = o.strip()
            if t in ("sat", "unsat", "unknown"):
                verdict = t
            elif t.startswith("("):
                model_text = t
        if verdict == "unsat":
            return z3.unsat
        if verdict != "sat":
            return z3.unknown
        # rebuild a z3 model from cvc5's values (evaluation only)
        import re as _re

        fix = z3.Solver()
        for name, sort, val in _re.findall(r"\(define-fun\s+(\|[^|]*\||\S+)\s+\(\)\s+(\(_ BitVec \d+\)|Bool)\s+(#b[01]+|#x[0-9a-fA-F]+|true|false)\)", model_text):
            name = name.strip("|")
            if sort == "Bool":
                fix.add(z3.Bool(name) == (val == "true"))
            else:
                width = int(sort.split()[2].rstrip(")"))
                num = int(val[2:], 2 if val[1] == "b" else 16)
                fix.add(z3.BitVec(name, width) == z3.BitVecVal(num, width))
        if fix.check() != z3.sat:
            return z3.unknown
        m = fix.model()
        # the model must satisfy the query (guards against a parsing slip)
        for a in list(self.s.assertions()) + list(assumptions):
            if not z3.is_true(m.eval(a, model_completion=True)):
                return z3.unknown
        self._ext_model = m
        return z3.sat

    def add(self, c):
        self.s.add(c)
        if self.model is not None and not z3.is_true(self.model.eval(c, model_completion=True)):
            self.model = None

    def fresh(self, name, sort):
        self.nfresh += 1
        return z3.Const(f"{name}!{self.nfresh}", sort)

    def get_model(self):
        if self.model is None:
            r = self.check()
            if r == z3.unsat:
                raise PathAbort("infeasible")
            if r != z3.sat:
                raise EngineLimit("solver unknown on path condition")
            self.model = self.last_model()
        return self.model

    # -- decisions ---------------------------------------------------------
    def branch(self, cond):
        cond = z3.simplify(cond)
        if z3.is_true(cond):
            return True
        if z3.is_false(cond):
            return False
        known = self.decided.get(cond.get_id())
        if known is not None:
            return known[1]
        r = self._branch(cond)
        self.decided[cond.get_id()] = (cond, r)
        return r

    def _branch(self, cond):
        i = len(self.dec)
        if i >= self.max_decisions:
            raise EngineLimit("decision cap")
        h = _site()
        if i < len(self.prefix):
            taken, ph = self.prefix[i]
            if ph != h:
                raise EngineLimit("replay diverged (non-deterministic harness)")
            self.dec.append((taken, False, h))
            self.s.add(cond if taken else z3.Not(cond))
            self.model = None
            return taken
        m = self.get_model()
        mv = z3.is_true(m.eval(cond, model_completion=True))
        other = z3.Not(cond) if mv else cond
        r = self.check(other)
        if r == z3.unknown:
            raise EngineLimit("solver unknown on branch")
        self.dec.append((mv, r == z3.sat, h))
        self.s.add(cond if mv else z3.Not(cond))
        return mv

    def assume(self, cond):
        if isinstance(cond, SymBool):
            cond = cond.t
        elif isinstance(cond, bool):
            if not cond:
                raise PathAbort("assume False")
            return
        cond = z3.simplify(cond)
        if z3.is_true(cond):
            return
        self.add(cond)
        if self.model is None:
            self.get_model()

    def must(self, cond):
        """None if cond holds for every value on this path, else a model violating it."""
        if isinstance(cond, SymBool):
            cond = cond.t
        elif isinstance(cond, bool):
            return None if cond else self.get_model()
        cond = z3.simplify(cond)
        if z3.is_true(cond):
            return None
        r = self.check(z3.Not(cond))
        if r == z3.unsat:
            return None
        if r == z3.unknown:
            raise EngineLimit("solver unknown on property query")
        return self.last_model()

    def discharge_obligations(self):
        """no-overflow obligations: BV(W) arithmetic must coincide with Python's int on this path"""
        if not self.oblig:
            return
        r = self.check(z3.Not(z3.And(self.oblig)))
        if r == z3.sat:
            raise EngineLimit("BV%d overflow possible on this path: int model not exact" % W)
        if r == z3.unknown:
            raise EngineLimit("solver unknown on overflow obligations")


_ENGINE_FILES = None


def _site():
    """fingerprint of the program point that asked for this decision (first frame outside the
    engine): used to detect a harness whose replay diverges from the recorded decisions"""
    global _ENGINE_FILES
    if _ENGINE_FILES is None:
        import os

        d = os.path.dirname(os.path.abspath(__file__))
        _ENGINE_FILES = {os.path.join(d, n) for n in ("sym.py", "symstr.py", "symfloat.py", "symre.py", "shims.py", "desugar.py", "symtime.py")}
    f = sys._getframe(2)
    while f is not None and f.f_code.co_filename in _ENGINE_FILES:
        f = f.f_back
    if f is None:
        return 0
    c = f.f_code
    return (hash(c.co_filename) ^ (c.co_firstlineno * 1000003) ^ (f.f_lineno * 7919)) & 0x7FFFFFFF


def B(cond):
    """decide a z3 Bool now (fork)"""
    if isinstance(cond, bool):
        return cond
    if isinstance(cond, SymBool):
        cond = cond.t
    if CTX is None:
        # native twin: spec models run on concrete values, every condition folds to a constant
        c = z3.simplify(cond)
        if z3.is_true(c):
            return True
        if z3.is_false(c):
            return False
    return cur().branch(cond)


# ---------------------------------------------------------------------------
# ints and bools


def is_sym(v):
    return isinstance(v, (SymInt, SymBool)) or getattr(v, "_vf_sym", False)


_CONST = {}


def bvval(v):
    t = _CONST.get(v)
    if t is None:
        if not (_LO <= v <= _HI):
            raise Unsupported("constant beyond BV%d" % W)
        t = z3.BitVecVal(v, W)
        if len(_CONST) < 50000:
            _CONST[v] = t
    return t


def bv(v):
    """z3 BV(W) term of an int-like value, or None"""
    if isinstance(v, SymInt):
        return v.t
    if isinstance(v, SymBool):
        return z3.If(v.t, bvval(1), bvval(0))
    if type(v) is int:
        return bvval(v)
    if isinstance(v, int) and not getattr(v, "_vf_sym", False):
        return bvval(int(v))
    return None


def mk(t, r=None):
    t = z3.simplify(t)
    if z3.is_bv_value(t):
        return t.as_signed_long()
    return SymInt(t, r)


def mk_raw(t):
    """result of an operation that cannot fold to a constant (one operand symbolic)"""
    return SymInt(t)


def mkb(t):
    t = z3.simplify(t)
    if z3.is_true(t):
        return True
    if z3.is_false(t):
        return False
    return SymBool(t)


def iv(v):
    """sound interval (lo, hi) known to contain the value, or None"""
    if isinstance(v, SymInt):
        return v.iv
    if isinstance(v, SymBool):
        return (0, 1)
    if isinstance(v, int):
        v = int(v)
        return (v, v)
    return None


def _fits(r):
    return r is not None and _LO // 4 <= r[0] and r[1] <= _HI // 4


def _cmp(op, dec):
    def f(self, o):
        b = bv(o)
        if b is None:
            return NotImplemented
        ia, ib = iv(self), iv(o)
        if ia is not None and ib is not None:
            d = dec(ia, ib)
            if d is not None:
                return d
        return mkb(op(bv(self), b))

    return f


def _d_lt(a, b):
    return True if a[1] < b[0] else False if a[0] >= b[1] else None


def _d_le(a, b):
    return True if a[1] <= b[0] else False if a[0] > b[1] else None


def _d_eq(a, b):
    if a[1] < b[0] or b[1] < a[0]:
        return False
    if a[0] == a[1] == b[0] == b[1]:
        return True
    return None


def _d_ne(a, b):
    r = _d_eq(a, b)
    return None if r is None else not r


def _oblig(c):
    ctx = CTX
    if ctx is not None:
        ctx.oblig.append(c)


def _add(a, b, r=None):
    if not _fits(r):
        _oblig(z3.And(z3.BVAddNoOverflow(a, b, True), z3.BVAddNoUnderflow(a, b)))
    return a + b


def _sub(a, b, r=None):
    if not _fits(r):
        _oblig(z3.And(z3.BVSubNoOverflow(a, b), z3.BVSubNoUnderflow(a, b, True)))
    return a - b


def _mul(a, b, r=None):
    if not _fits(r):
        _oblig(z3.And(z3.BVMulNoOverflow(a, b, True), z3.BVMulNoUnderflow(a, b)))
    return a * b


def _shl(a, b, r=None):
    bb = z3.simplify(b)
    if not z3.is_bv_value(bb):
        raise Unsupported("shift by symbolic amount")
    k = bb.as_signed_long()
    if k < 0:
        raise ValueError("negative shift count")
    if k >= W:
        raise Unsupported("shift beyond BV width")
    res = a << b
    if not _fits(r):
        _oblig((res >> b) == a)
    return res


def _shr(a, b, r=None):
    bb = z3.simplify(b)
    if z3.is_bv_value(bb):
        k = bb.as_signed_long()
        if k < 0:
            raise ValueError("negative shift count")
        if k >= W:
            return z3.If(a < 0, bvval(-1), bvval(0))
        return a >> b
    raise Unsupported("shift by symbolic amount")


def _floordiv(a, b, r=None):
    # Python floor division on BV terms (b != 0 decided by caller)
    q = a / b  # signed, truncating
    rem = z3.SRem(a, b)
    return z3.If(z3.And(rem != 0, (rem < 0) != (b < 0)), q - 1, q)


def _mod(a, b, r=None):
    rem = z3.SRem(a, b)
    return z3.If(z3.And(rem != 0, (rem < 0) != (b < 0)), rem + b, rem)


def _mask(n):
    return (1 << n.bit_length()) - 1


def _i_add(a, b):
    return (a[0] + b[0], a[1] + b[1])


def _i_sub(a, b):
    return (a[0] - b[1], a[1] - b[0])


def _i_mul(a, b):
    c = [a[0] * b[0], a[0] * b[1], a[1] * b[0], a[1] * b[1]]
    return (min(c), max(c))


def _i_and(a, b):
    if a[0] >= 0 and b[0] >= 0:
        return (0, min(a[1], b[1]))
    if a[0] >= 0:
        return (0, a[1])
    if b[0] >= 0:
        return (0, b[1])
    return None


def _i_or(a, b):
    if a[0] >= 0 and b[0] >= 0:
        return (max(a[0], b[0]), _mask(max(a[1], b[1])))
    return None


def _i_xor(a, b):
    if a[0] >= 0 and b[0] >= 0:
        return (0, _mask(max(a[1], b[1])))
    return None


def _i_shl(a, b):
    if b[0] == b[1] and 0 <= b[0] < W:
        return (a[0] << b[0], a[1] << b[0])
    return None


def _i_shr(a, b):
    if b[0] == b[1] and b[0] >= 0:
        return (a[0] >> b[0], a[1] >> b[0])
    return None


def _i_floordiv(a, b):
    if b[0] == b[1] and b[0] > 0:
        return (a[0] // b[0], a[1] // b[0])
    return None


def _i_mod(a, b):
    if b[0] == b[1] and b[0] > 0:
        if a[0] >= 0 and a[1] < b[0]:
            return a
        return (0, b[0] - 1)
    return None


def _bin(op, ivop=None, rev=False):
    def f(self, o):
        b = bv(o)
        if b is None:
            return NotImplemented
        a = bv(self)
        ia, ib = iv(self), iv(o)
        if rev:
            a, b, ia, ib = b, a, ib, ia
        r = ivop(ia, ib) if (ivop is not None and ia is not None and ib is not None) else None
        if r is not None and r[0] == r[1]:
            return r[0]
        t = z3.simplify(op(a, b, r))
        if z3.is_bv_value(t):
            return t.as_signed_long()
        return SymInt(t, r)

    return f


def _divmod_const(a, c, ia):
    """(q, r) terms with a == q*c + r, 0 <= r < c for a positive constant c: defined by fresh
    variables and linear constraints instead of a bit-blasted divider (cached per dividend)"""
    ctx = cur()
    key = (a.get_id(), c)
    hit = ctx.divcache.get(key)
    if hit is not None:
        return hit[1], hit[2]
    q = ctx.fresh("q", z3.BitVecSort(W))
    r = ctx.fresh("r", z3.BitVecSort(W))
    if ia is not None and _fits((ia[0] - c, ia[1] + c)):
        qlo, qhi = ia[0] // c, ia[1] // c
    else:
        qlo, qhi = _LO // (2 * c), _HI // (2 * c)
        ctx.oblig.append(z3.And(a >= bvval(qlo * c), a <= bvval(qhi * c)))
    ctx.add(z3.And(q >= bvval(qlo), q <= bvval(qhi), r >= 0, r < bvval(c), a == q * bvval(c) + r))
    ctx.divcache[key] = (a, q, r)
    return q, r


def _divlike(op, ivop, rev=False, which=0):
    def f(self, o):
        b = bv(o)
        if b is None:
            return NotImplemented
        a = bv(self)
        ia, ib = iv(self), iv(o)
        if rev:
            a, b, ia, ib = b, a, ib, ia
        if not (ib is not None and (ib[0] > 0 or ib[1] < 0)) and B(b == 0):
            raise ZeroDivisionError("integer division or modulo by zero")
        r = ivop(ia, ib) if (ia is not None and ib is not None) else None
        if r is not None and r[0] == r[1]:
            return r[0]
        if ib is not None and ib[0] == ib[1] and ib[0] > 0 and CTX is not None:
            c = ib[0]
            if c == 1:
                return self if which == 0 else 0
            if c & (c - 1) == 0 and which == 0:
                return self >> (c.bit_length() - 1)
            if c & (c - 1) == 0:
                return self & (c - 1)
            if ia is None or max(abs(ia[0]), abs(ia[1])) >= (1 << 32):
                # wide dividend: a bit-blasted divider stalls; use the quotient / remainder encoding
                qq, rr = _divmod_const(z3.simplify(a), c, ia)
                return SymInt(qq if which == 0 else rr, r if r is not None else ((0, c - 1) if which else None))
        t = z3.simplify(op(a, b, r))
        if z3.is_bv_value(t):
            return t.as_signed_long()
        return SymInt(t, r)

    return f


class SymRat:
    """exact rational n/d with concrete d > 0 (only `math.ceil(bit_length()/7)` needs it)"""

    _vf_sym = True

    def __init__(self, num, den):
        self.num, self.den = num, den

    def __ceil__(self):
        return (self.num + (self.den - 1)) // self.den

    def __floor__(self):
        return self.num // self.den


class _IntOps:
    def __copy__(self):
        return self

    def __deepcopy__(self, memo):
        return self

    __slots__ = ()
    _vf_sym = True

    __eq__ = _cmp(lambda a, b: a == b, _d_eq)
    __ne__ = _cmp(lambda a, b: a != b, _d_ne)
    __lt__ = _cmp(lambda a, b: a < b, _d_lt)
    __le__ = _cmp(lambda a, b: a <= b, _d_le)
    __gt__ = _cmp(lambda a, b: a > b, lambda a, b: _d_lt(b, a))
    __ge__ = _cmp(lambda a, b: a >= b, lambda a, b: _d_le(b, a))
    __add__ = _bin(_add, _i_add)
    __radd__ = _bin(_add, _i_add, True)
    __sub__ = _bin(_sub, _i_sub)
    __rsub__ = _bin(_sub, _i_sub, True)
    __mul__ = _bin(_mul, _i_mul)
    __rmul__ = _bin(_mul, _i_mul, True)
    __and__ = _bin(lambda a, b, r=None: a & b, _i_and)
    __rand__ = __and__
    __or__ = _bin(lambda a, b, r=None: a | b, _i_or)
    __ror__ = __or__
    __xor__ = _bin(lambda a, b, r=None: a ^ b, _i_xor)
    __rxor__ = __xor__
    __lshift__ = _bin(_shl, _i_shl)
    __rlshift__ = _bin(_shl, _i_shl, True)
    __rshift__ = _bin(_shr, _i_shr)
    __rrshift__ = _bin(_shr, _i_shr, True)
    __floordiv__ = _divlike(_floordiv, _i_floordiv)
    __rfloordiv__ = _divlike(_floordiv, _i_floordiv, True)
    __mod__ = _divlike(_mod, _i_mod, False, 1)
    __rmod__ = _divlike(_mod, _i_mod, True, 1)

    def __divmod__(self, o):
        return self // o, self % o

    def __rdivmod__(self, o):
        return o // self, o % self

    def __truediv__(self, o):
        if type(o) is int and o > 0:
            return SymRat(SymInt(bv(self), iv(self)), o)
        if isinstance(o, float) or getattr(o, "_vf_float", False):
            from .symfloat import SymFloat

            return SymFloat.from_int(self) / o
        raise Unsupported("true division of a symbolic int")

    def __rtruediv__(self, o):
        raise Unsupported("true division by a symbolic int")

    def __invert__(self):
        i = iv(self)
        return mk(~bv(self), (-i[1] - 1, -i[0] - 1) if i is not None else None)

    def __neg__(self):
        i = iv(self)
        r = (-i[1], -i[0]) if i is not None else None
        return mk(_sub(bvval(0), bv(self), r), r)

    def __pos__(self):
        return mk(bv(self))

    def __abs__(self):
        a = bv(self)
        return mk(z3.If(a < 0, _sub(bvval(0), a), a))

    def __hash__(self):
        return 0

    def __index__(self):
        return realize_int(bv(self))

    __int__ = __index__

    def __float__(self):
        raise Unsupported("float() of a symbolic int reached C code")

    def __trunc__(self):
        return SymInt(bv(self), iv(self))

    def bit_length(self):
        a = bv(self)
        i = iv(self)
        top = W - 1
        if i is not None:
            top = min(top, max(abs(i[0]), abs(i[1])).bit_length())
        if i is None or i[0] < 0:
            a = z3.If(a < 0, -a, a)
        r = bvval(0)
        for k in range(top):
            r = z3.If(z3.Extract(k, k, a) == 1, bvval(k + 1), r)
        return mk(r, (0, top))

    def to_bytes(self, length=1, byteorder="big", *, signed=False):
        if isinstance(length, _IntOps):
            length = length.__index__()
        me = SymInt(bv(self), iv(self))
        if signed:
            lo, hi = -(1 << (8 * length - 1)), 1 << (8 * length - 1)
        else:
            lo, hi = 0, 1 << (8 * length)
            if me < 0:
                raise OverflowError("can't convert negative int to unsigned")
        if not (me >= lo and me < hi):
            raise OverflowError("int too big to convert")
        items = [z3.Extract(8 * i + 7, 8 * i, me.t) for i in range(length)]
        if byteorder == "big":
            items.reverse()
        return SymBytes(items)

    def __format__(self, spec):
        return "<sym>"

    def __str__(self):
        from .symstr import SymDecStr

        return SymDecStr(SymInt(bv(self), iv(self)))

    def __round__(self, n=None):
        return SymInt(bv(self), iv(self))


class SymInt(_IntOps):
    __slots__ = ("t", "iv")

    def __init__(self, t, iv=None):
        self.t = t
        self.iv = iv  # sound interval (lo, hi) or None

    def __bool__(self):
        i = self.iv
        if i is not None and (i[0] > 0 or i[1] < 0):
            return True
        return cur().branch(self.t != 0)

    def __repr__(self):
        return f"SymInt({self.t})"


class SymBool(_IntOps):
    __slots__ = ("t",)

    def __init__(self, t):
        self.t = t

    def __bool__(self):
        return cur().branch(self.t)

    def __eq__(self, o):
        if isinstance(o, SymBool):
            return mkb(self.t == o.t)
        if isinstance(o, bool):
            return mkb(self.t if o else z3.Not(self.t))
        return _IntOps.__eq__(self, o)

    def __ne__(self, o):
        r = self.__eq__(o)
        if r is NotImplemented:
            return r
        return not r if isinstance(r, bool) else mkb(z3.Not(r.t))

    def __hash__(self):
        return 0

    def __invert__(self):
        return mk(~bv(self))

    def __str__(self):
        raise Unsupported("str() of a symbolic bool")

    def __repr__(self):
        return f"SymBool({self.t})"


def sym_not(x):
    if isinstance(x, SymBool):
        return mkb(z3.Not(x.t))
    return not x


def sym_and(*xs):
    ts = []
    for x in xs:
        if isinstance(x, SymBool):
            ts.append(x.t)
        elif not x:
            return False
    return mkb(z3.And(ts)) if ts else True


def sym_or(*xs):
    ts = []
    for x in xs:
        if isinstance(x, SymBool):
            ts.append(x.t)
        elif x:
            return True
    return mkb(z3.Or(ts)) if ts else False


REALIZE_CAP = 64


def realize_int(t, cap=None):
    """fork over the feasible values of a BV term (ascending); more than `cap` -> inconclusive"""
    t = z3.simplify(t)
    if z3.is_bv_value(t):
        return t.as_signed_long()
    ctx = cur()
    cap = cap or REALIZE_CAP
    # replaying a recorded prefix: decisions are replayed by branch() below; enumeration must
    # be deterministic, so it is done with the solver on the same path condition every time
    vals = []
    s = ctx.s
    for _ in range(cap + 1):
        r = ctx.check(*[t != v for v in vals])
        if r == z3.unknown:
            raise EngineLimit("solver unknown while enumerating values")
        if r != z3.sat:
            break
        vals.append(ctx.last_model().eval(t, model_completion=True).as_signed_long())
    else:
        raise EngineLimit("more than %d feasible values at a concretisation point" % cap)
    if not vals:
        raise PathAbort("infeasible")
    vals.sort()
    for v in vals[:-1]:
        if ctx.branch(t == v):
            return v
    ctx.add(t == vals[-1])
    return vals[-1]


# ---------------------------------------------------------------------------
# mathematical integers (LIA back end) for pure arithmetic kernels: divmod by constants,
# multiplication by constants -- where bit-blasting a 96-bit divider stalls.  No bit operators.


def zt(v):
    if isinstance(v, SymZ):
        return v.t
    if isinstance(v, bool):
        return z3.IntVal(int(v))
    if isinstance(v, int):
        return z3.IntVal(int(v))
    if isinstance(v, SymBool):
        return z3.If(v.t, z3.IntVal(1), z3.IntVal(0))
    if isinstance(v, SymInt):
        return z3.BV2Int(v.t, True)
    return None


def mkz(t):
    t = z3.simplify(t)
    if z3.is_int_value(t):
        return t.as_long()
    return SymZ(t)


def _zcmp(op):
    def f(self, o):
        b = zt(o)
        if b is None:
            return NotImplemented
        return mkb(op(self.t, b))

    return f


def _zbin(op, rev=False):
    def f(self, o):
        if isinstance(o, float) and not getattr(o, "_vf_sym", False):
            return SymZFloat.arith(self, o, op, rev)
        b = zt(o)
        if b is None:
            return NotImplemented
        return mkz(op(b, self.t) if rev else op(self.t, b))

    return f


def _zdiv(rev, which):
    def f(self, o):
        b = zt(o)
        if b is None:
            return NotImplemented
        a = self.t
        if rev:
            a, b = b, a
        bb = z3.simplify(b)
        if not z3.is_int_value(bb) or bb.as_long() <= 0:
            if B(b == 0):
                raise ZeroDivisionError("integer division or modulo by zero")
            if not B(b > 0):
                raise Unsupported("division by a negative symbolic integer")
        # b > 0: Python floor division and modulo coincide with SMT-LIB div / mod
        return mkz(a / b) if which == 0 else mkz(a % b)

    return f


class SymZ:
    """Python int as a mathematical integer (z3 Int)"""

    __slots__ = ("t",)
    _vf_sym = True
    _vf_z = True

    def __init__(self, t):
        self.t = t

    __eq__ = _zcmp(lambda a, b: a == b)
    __ne__ = _zcmp(lambda a, b: a != b)
    __lt__ = _zcmp(lambda a, b: a < b)
    __le__ = _zcmp(lambda a, b: a <= b)
    __gt__ = _zcmp(lambda a, b: a > b)
    __ge__ = _zcmp(lambda a, b: a >= b)
    __add__ = _zbin(lambda a, b: a + b)
    __radd__ = _zbin(lambda a, b: a + b, True)
    __sub__ = _zbin(lambda a, b: a - b)
    __rsub__ = _zbin(lambda a, b: a - b, True)
    __mul__ = _zbin(lambda a, b: a * b)
    __rmul__ = _zbin(lambda a, b: a * b, True)
    __floordiv__ = _zdiv(False, 0)
    __rfloordiv__ = _zdiv(True, 0)
    __mod__ = _zdiv(False, 1)
    __rmod__ = _zdiv(True, 1)

    def __divmod__(self, o):
        return self // o, self % o

    def __rdivmod__(self, o):
        return o // self, o % self

    def __neg__(self):
        return mkz(-self.t)

    def __pos__(self):
        return self

    def __abs__(self):
        return mkz(z3.If(self.t < 0, -self.t, self.t))

    def __bool__(self):
        return cur().branch(self.t != 0)

    def __hash__(self):
        return 0

    def __index__(self):
        ctx = cur()
        m = ctx.get_model()
        v = m.eval(self.t, model_completion=True).as_long()
        r = ctx.check(self.t != v)
        if r == z3.unsat:
            ctx.add(self.t == v)
            return v
        raise EngineLimit("symbolic integer (LIA) at a concretisation point")

    __int__ = __index__

    def __truediv__(self, o):
        if isinstance(o, float) and not getattr(o, "_vf_sym", False) and o == int(o) and o > 0:
            # IEEE-754 correct rounding: float(n) is exact for |n| < 2**53 and an exactly
            # representable quotient is returned exactly.  Anything else is not modelled here.
            c = int(o)
            if B(z3.And(self.t > -(2**53), self.t < 2**53)) and B(self.t % c == 0):
                return SymZFloat(self // c)
        if type(o) is int and o > 0:
            return SymRat(self, o)
        raise Unsupported("true division of a symbolic int")

    def __rtruediv__(self, o):
        raise Unsupported("true division by a symbolic int")

    def _bits(self, *a):
        raise Unsupported("bit operation on a mathematical-integer proxy (LIA back end)")

    __and__ = __rand__ = __or__ = __ror__ = __xor__ = __rxor__ = __lshift__ = __rshift__ = __rlshift__ = __rrshift__ = __invert__ = _bits

    def bit_length(self):
        raise Unsupported("bit_length on the LIA back end")

    def __format__(self, spec):
        return "<symz>"

    def __repr__(self):
        return f"SymZ({self.t})"

    def __copy__(self):
        return self

    def __deepcopy__(self, memo):
        return self


class SymZFloat:
    """a double known to hold exactly the integer `z` with |z| < 2**53: arithmetic with integer-valued floats stays exact as long
    as every result stays below 2**53 (checked by the solver on each operation), so it is done on the integers"""

    _vf_sym = True
    _vf_float = True

    def __init__(self, z):
        self.z = z

    @staticmethod
    def _exact(z):
        if isinstance(z, int):
            if abs(z) >= 2**53:
                raise Unsupported("float arithmetic beyond 2**53")
            return SymZFloat(z)
        if not B(z3.And(z.t > -(2**53), z.t < 2**53)):
            raise Unsupported("float arithmetic beyond 2**53")
        return SymZFloat(z)

    @staticmethod
    def _int_of(o):
        if isinstance(o, SymZFloat):
            return o.z
        if isinstance(o, float) and not getattr(o, "_vf_sym", False):
            if o != int(o) or abs(o) >= 2**53:
                raise Unsupported("non-integral float in exact-integer float arithmetic")
            return int(o)
        if isinstance(o, (int, SymZ)) and not isinstance(o, bool):
            return o
        raise Unsupported("operand of exact-integer float arithmetic")

    @staticmethod
    def arith(a, b, op, rev=False):
        x, y = SymZFloat._int_of(a), SymZFloat._int_of(b)
        if rev:
            x, y = y, x
        x = x if isinstance(x, SymZ) else SymZ(z3.IntVal(x))
        r = op(x.t, zt(y))
        return SymZFloat._exact(mkz(r))

    def __mul__(self, o):
        return SymZFloat.arith(self, o, lambda a, b: a * b)

    __rmul__ = __mul__

    def __add__(self, o):
        return SymZFloat.arith(self, o, lambda a, b: a + b)

    __radd__ = __add__

    def __sub__(self, o):
        return SymZFloat.arith(self, o, lambda a, b: a - b)

    def __mod__(self, o):
        d = SymZFloat._int_of(o)
        if not (isinstance(d, int) and d > 0):
            raise Unsupported("float modulo by a non-constant")
        z = self.z if isinstance(self.z, SymZ) else SymZ(z3.IntVal(self.z))
        return SymZFloat._exact(z % d)  # fmod of exact integers with a positive divisor == integer modulo (sign of the divisor)

    def __floordiv__(self, o):
        d = SymZFloat._int_of(o)
        if not (isinstance(d, int) and d > 0):
            raise Unsupported("float floor division by a non-constant")
        z = self.z if isinstance(self.z, SymZ) else SymZ(z3.IntVal(self.z))
        return SymZFloat._exact(z // d)

    def _cmp(self, o, op):
        return op(self.z if isinstance(self.z, SymZ) else SymZ(z3.IntVal(self.z)), SymZFloat._int_of(o))

    def __eq__(self, o):
        return self._cmp(o, lambda a, b: a == b)

    def __ne__(self, o):
        return self._cmp(o, lambda a, b: a != b)

    def __lt__(self, o):
        return self._cmp(o, lambda a, b: a < b)

    def __le__(self, o):
        return self._cmp(o, lambda a, b: a <= b)

    def __gt__(self, o):
        return self._cmp(o, lambda a, b: a > b)

    def __ge__(self, o):
        return self._cmp(o, lambda a, b: a >= b)

    def __hash__(self):
        return 0

    def round_half_even_int(self):
        return self.z

    def __int__(self):
        return self.z

    __trunc__ = __int__

    def __float__(self):
        raise Unsupported("symbolic float reached C code")

    def __format__(self, spec):
        return "<symfloat>"


# ---------------------------------------------------------------------------
# bytes


def _c8(x):
    if isinstance(x, int):
        return x
    x = z3.simplify(x)
    return x.as_long() if z3.is_bv_value(x) else x


def term8(x):
    return z3.BitVecVal(x, 8) if isinstance(x, int) else x


class SymBytes(bytes):
    """bytes whose items are 8-bit terms; the length is concrete per path"""

    def __copy__(self):
        return self

    def __deepcopy__(self, memo):
        return self


    _vf_sym = True

    def __new__(cls, items=()):
        o = bytes.__new__(cls, b"")
        o.items = [_c8(x) for x in items]
        return o

    @classmethod
    def _raw(cls, items):
        """items already normalised (ints or simplified 8-bit terms)"""
        o = bytes.__new__(cls, b"")
        o.items = items
        return o

    @staticmethod
    def lift(b):
        if isinstance(b, SymBytes):
            return b
        if isinstance(b, (bytes, bytearray, memoryview)):
            return SymBytes._raw(list(bytes(b)))
        return None

    def is_concrete(self):
        return all(isinstance(x, int) for x in self.items)

    def concrete(self):
        return builtins.bytes(self.items) if self.is_concrete() else None

    def __len__(self):
        return len(self.items)

    def __bool__(self):
        return len(self.items) > 0

    def __bytes__(self):
        return self

    def __add__(self, o):
        o = SymBytes.lift(o)
        if o is None:
            return NotImplemented
        return SymBytes._raw(self.items + o.items)

    def __radd__(self, o):
        o = SymBytes.lift(o)
        if o is None:
            return NotImplemented
        return SymBytes._raw(o.items + self.items)

    def __iadd__(self, o):
        return self.__add__(o)

    def __mul__(self, n):
        return SymBytes._raw(self.items * int(n))

    __rmul__ = __mul__

    def __getitem__(self, i):
        if isinstance(i, slice):
            a, b, st = i.start, i.stop, i.step
            if isinstance(a, _IntOps):
                a = a.__index__()
            if isinstance(b, _IntOps):
                b = b.__index__()
            return SymBytes._raw(self.items[slice(a, b, st)])
        if isinstance(i, _IntOps):
            i = i.__index__()
        x = self.items[i]
        return x if isinstance(x, int) else SymInt(z3.ZeroExt(W - 8, x), (0, 255))

    def __iter__(self):
        for i in range(len(self.items)):
            yield self[i]

    def term(self, i):
        return term8(self.items[i])

    def eqterm(self, o):
        if len(o) != len(self):
            return z3.BoolVal(False)
        cs = []
        for a, b in zip(self.items, o.items):
            if isinstance(a, int) and isinstance(b, int):
                if a != b:
                    return z3.BoolVal(False)
            else:
                cs.append(term8(a) == term8(b))
        return z3.And(cs) if cs else z3.BoolVal(True)

    def __eq__(self, o):
        o = SymBytes.lift(o)
        if o is None:
            return NotImplemented
        return mkb(self.eqterm(o))

    def __ne__(self, o):
        o = SymBytes.lift(o)
        if o is None:
            return NotImplemented
        return mkb(z3.Not(self.eqterm(o)))

    def __hash__(self):
        return 0

    def __contains__(self, x):
        raise Unsupported("`in` on symbolic bytes")

    def decode(self, encoding="utf-8", errors="strict"):
        from .symstr import utf8_decode

        if encoding.lower().replace("-", "") not in ("utf8",) or errors != "strict":
            raise Unsupported("decode(%r, %r)" % (encoding, errors))
        return utf8_decode(self)

    def __repr__(self):
        return f"SymBytes({self.items})"

    def __format__(self, spec):
        return "<symbytes>"

    def __str__(self):
        return "<symbytes>"

    def hex(self, *a):
        raise Unsupported("hex of symbolic bytes")

    def __reduce__(self):
        raise Unsupported("pickling symbolic bytes")


def to_bytes_value(b):
    """SymBytes for anything bytes-like"""
    r = SymBytes.lift(b)
    if r is None:
        raise TypeError("a bytes-like object is required, not %r" % type(b).__name__)
    return r


def wire(b):
    """what is handed to the code under test: in a native run the spec models' output (SymBytes
    with concrete items) becomes a real bytes object"""
    if CTX is None and isinstance(b, SymBytes):
        return b.concrete()
    return b
