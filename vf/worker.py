"""process initialisation for the two kinds of worker processes"""
import importlib
import os
import sys

_MODE = None
STUBS = []


def repo_src():
    return os.path.join(os.environ.get("VERIF_REPO", "/repo"), "src")


def init_symbolic():
    """symbolic worker: DESUGAR hook + environment models; imports the *current* sources"""
    global _MODE
    if _MODE == "sym":
        return
    assert _MODE is None
    _MODE = "sym"
    sys.setrecursionlimit(5000)
    src = repo_src()
    if src not in sys.path[:1]:
        sys.path.insert(0, src)
    from . import desugar, explore, shims

    desugar.REBIND = True
    desugar.install()
    import betterproto

    assert betterproto.__file__.startswith(src), betterproto.__file__
    STUBS.extend(shims.install_core(betterproto))
    import betterproto.casing
    import betterproto.compile.importing

    from . import symre

    STUBS.extend(symre.install_text(betterproto.casing, betterproto.compile.importing))
    import betterproto.compile.naming  # noqa: F401
    import betterproto.enum  # noqa: F401
    import betterproto.utils  # noqa: F401
    from . import procstate

    procstate.snapshot(src)
    explore.start_coverage(src)


def init_native():
    """native worker: untouched modules, no proxies"""
    global _MODE
    if _MODE == "native":
        return
    assert _MODE is None
    _MODE = "native"
    src = repo_src()
    if src not in sys.path[:1]:
        sys.path.insert(0, src)
    import betterproto

    assert betterproto.__file__.startswith(src), betterproto.__file__
    import betterproto.casing  # noqa: F401
    import betterproto.compile.importing  # noqa: F401
    import betterproto.compile.naming  # noqa: F401
    from . import procstate

    procstate.snapshot(src)


def harness_module(prop):
    return importlib.import_module("vf.harness." + prop.lower())


_SETUP_DONE = set()


def harness_setup(prop):
    """optional per-property environment models (symbolic workers only)"""
    if prop in _SETUP_DONE:
        return
    _SETUP_DONE.add(prop)
    mod = harness_module(prop)
    f = getattr(mod, "sym_setup", None)
    if f is not None:
        import betterproto

        STUBS.extend(f(betterproto))
