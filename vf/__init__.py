"""SHADOW/DESUGAR: solver-based checking of python-betterproto (see /verif/DESIGN.md)."""
