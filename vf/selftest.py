"""./check selftest : validates the environment models against the real library and runs the
repository's own pinned tests through the DESUGAR-rewritten modules (concrete values)."""
import base64
import itertools
import json
import os
import re
import struct
import subprocess
import sys
import time

ROOT = os.path.dirname(os.path.dirname(os.path.abspath(__file__)))


def _explore_all(fn, max_paths=200000):
    """run fn(ctxless) under the symbolic engine over all paths; returns list of per-path results"""
    from . import sym

    results = []
    stack = [[]]
    while stack:
        pre = stack.pop()
        ctx = sym.Ctx(pre)
        sym.CTX = ctx
        try:
            r = fn(ctx)
            m = ctx.get_model()
            results.append((r, m))
        except sym.PathAbort:
            pass
        finally:
            sym.CTX = None
        dec = ctx.dec
        for i in range(len(pre), len(dec)):
            taken, alt, h = dec[i]
            if alt:
                stack.append([(d[0], d[2]) for d in dec[:i]] + [(not taken, h)])
        if len(results) > max_paths:
            raise RuntimeError("too many paths")
    return results


def test_regex_model():
    """symbolic regex matcher == re on all strings of length <= 4 over one representative per character class"""
    from .symre import compile_
    from .symstr import SymStr

    import importlib.util

    src = os.path.join(os.environ.get("VERIF_REPO", "/repo"), "src", "betterproto", "casing.py")
    spec = importlib.util.spec_from_file_location("_casing_for_selftest", src)
    casing = importlib.util.module_from_spec(spec)
    spec.loader.exec_module(casing)
    pats = [
        f"(^)?({casing.SYMBOLS})({casing.WORD_UPPER}|{casing.WORD})",
        f"({casing.SYMBOLS})({casing.WORD_UPPER}|{casing.WORD})",
        r"^\.?([^A-Z]+)\.(.+)",
        r"[a-z0-9]_[0-9]",
        r"_[a-z]_[a-z]([0-9_]|$)",
        r"^_*([0-9].*)?$",
        r"[A-Z][A-Z]([^a-z]|$)",
    ]
    alphabet = "aZ0_.-"
    n = 0
    from . import sym

    for pat in pats:
        p = compile_(pat)
        rp = re.compile(pat)
        for L in range(0, 5):
            for t in itertools.product(alphabet, repeat=L):
                s = "".join(t)
                sym.CTX = None
                ss = SymStr([ord(c) for c in s])
                m1, m2 = p.match_at(ss, 0), rp.match(s)
                assert (m1 is None) == (m2 is None), (pat, s)
                if m1 is not None:
                    assert m1.span() == m2.span(), (pat, s, m1.span(), m2.span())
                    for g in range(1, rp.groups + 1):
                        a, b = m1[g], m2[g]
                        assert (a is None and b is None) or (a is not None and a.concrete() == b), (pat, s, g)
                s1, s2 = p.search(ss), rp.search(s)
                assert (s1 is None) == (s2 is None) and (s1 is None or s1.span() == s2.span()), (pat, s)
                r1 = p.sub(lambda m: SymStr([ord("<")]) + m[0] + SymStr([ord(">")]), ss).concrete()
                r2 = rp.sub(lambda m: "<" + m[0] + ">", s)
                assert r1 == r2, (pat, s, r1, r2)
                n += 1
    return n


def test_casing_pairs():
    """the repository's own test_casing inputs through the model (symbolic strings whose characters are fixed by assumptions)"""
    from . import sym, worker
    from .symstr import SymStr

    import betterproto.casing as casing  # the DESUGARed module of the symbolic side

    inputs = ["", "a", "foobar", "fooBar", "FooBar", "foo.bar", "foo_bar", "FOOBAR", "FOOBar", "UInt32", "FOO_BAR", "FOOBAR1", "BAR1Foo", "FOO1BAR2",
              "foo__bar", "_foobar", "foobaR", "foo~bar", "foo:bar", "1foobar", "foo__Bar", "Foo_Bar", "UPPER_lower", "a_1", "x_y_z", "HTTPStatus"]  # fmt: skip
    import importlib.util

    src = os.path.join(os.environ.get("VERIF_REPO", "/repo"), "src", "betterproto", "casing.py")
    spec = importlib.util.spec_from_file_location("_casing_native", src)
    native = importlib.util.module_from_spec(spec)
    spec.loader.exec_module(native)
    n = 0
    for s in inputs:
        for fn in ("snake_case", "pascal_case", "camel_case", "safe_snake_case"):
            for strict in ((True, False) if fn != "safe_snake_case" else (None,)):
                ss = SymStr([ord(c) for c in s])
                args = (ss,) if strict is None else (ss, strict)
                nargs = (s,) if strict is None else (s, strict)
                got = getattr(casing, fn)(*args)
                want = getattr(native, fn)(*nargs)
                got = got.concrete() if isinstance(got, SymStr) else got
                assert got == want, (fn, s, strict, got, want)
                n += 1
    return n


def test_utf8_model():
    """UTF-8 encode / strict decode models == CPython on boundary code points and on all 2-byte inputs over boundary bytes"""
    from .sym import SymBytes
    from .symstr import SymStr, utf8_decode

    n = 0
    cps = [0, 0x41, 0x7F, 0x80, 0x7FF, 0x800, 0xD7FF, 0xE000, 0xFFFF, 0x10000, 0x10FFFF]
    for cp in cps:
        s = chr(cp)
        assert SymStr([cp]).encode("utf-8").concrete() == s.encode("utf-8")
        n += 1
    for cp in (0xD800, 0xDFFF):
        try:
            SymStr([cp]).encode("utf-8")
            raise AssertionError("surrogate encoded")
        except UnicodeEncodeError:
            n += 1
    bs = [0x00, 0x7F, 0x80, 0xBF, 0xC0, 0xC1, 0xC2, 0xDF, 0xE0, 0xED, 0xEF, 0xF0, 0xF4, 0xF5, 0xFF, 0x9F, 0xA0, 0x8F, 0x90]
    for L in (1, 2, 3, 4):
        for t in itertools.product(bs, repeat=L):
            if L == 4 and (t[0] < 0xE0):
                continue
            b = bytes(t)
            try:
                want = b.decode("utf-8")
            except UnicodeDecodeError:
                want = None
            try:
                got = utf8_decode(SymBytes(list(b))).concrete()
            except UnicodeDecodeError:
                got = None
            assert got == want, (b, got, want)
            n += 1
    return n


def test_base64_model():
    from . import shims
    from .sym import SymBytes
    from .symstr import SymStr
    import z3

    n = 0

    def one(L):
        def h(ctx):
            ts = [z3.BitVec("b%d" % i, 8) for i in range(L)]
            enc = shims.b64encode(SymBytes(ts)) if L else base64.b64encode(b"")
            if L:
                dec = shims.b64decode(enc.decode("utf8"))
                assert ctx.must(dec == SymBytes(ts)) is None
            return ts, enc

        return h

    for L in (1, 2, 3):
        for (ts, enc), m in _explore_all(one(L)):
            raw = bytes(m.eval(t, model_completion=True).as_long() for t in ts)
            got = bytes(x if isinstance(x, int) else m.eval(x, model_completion=True).as_long() for x in enc.items)
            assert got == base64.b64encode(raw), (raw, got)
            n += 1
    # exhaustive concrete agreement for 0..2 bytes through the symbolic code path (terms fixed by the model)
    for raw in [b""] + [bytes([a]) for a in range(256)] + [bytes([a, b]) for a in range(0, 256, 5) for b in range(0, 256, 7)]:
        from . import sym

        sym.CTX = None
        if raw:
            items = [z3.BitVecVal(x, 8) for x in raw]
            got = shims.b64encode(SymBytes(items))
            got = got if isinstance(got, bytes) and not isinstance(got, SymBytes) else got.concrete()
            assert got == base64.b64encode(raw), raw
        n += 1
    return n


def test_struct_float_model():
    from .symfloat import SymFloat
    from .sym import SymBytes
    import z3

    n = 0
    pats = [0, 1 << 63, 0x3FF0000000000000, 0x7FF0000000000000, 0xFFF0000000000000, 0x7FF8000000000000, 0x7FF0000000000001, 0xFFF8000000000123,
            0x7FF4000020000000, 0x36A0000000000000, 0x47EFFFFFE0000000, 0x47EFFFFFF0000000, 0x3FB999999999999A, 0x0000000000000001, 0x380FFFFFC0000000]  # fmt: skip
    for bits in pats:
        x = struct.unpack("<d", struct.pack("<Q", bits))[0]
        f = SymFloat(z3.BitVecVal(bits, 64))
        assert f.pack64().concrete() == struct.pack("<d", x)
        try:
            want = struct.pack("<f", x)
        except OverflowError:
            want = None
        try:
            got = f.pack32().concrete()
        except OverflowError:
            got = None
        assert got == want, (hex(bits), got, want)
        if want is not None:
            back = SymFloat.unpack32(SymBytes(list(want)))
            assert back.bits.as_long() == struct.unpack("<Q", struct.pack("<d", struct.unpack("<f", want)[0]))[0], hex(bits)
        n += 1
    return n


def test_int_model():
    """bit_length / ceil(n/7) lemma, floor division and modulo against Python on boundary values"""
    from .sym import SymInt, bvval
    import math

    n = 0
    for v in list(range(0, 130)) + [2**31, 2**32 - 1, 2**63, 2**64 - 1, 2**70]:
        s = SymInt(bvval(v), (v, v))
        s.iv = None
        bl = s.bit_length()
        assert bl == v.bit_length(), v
        n += 1
    for a in (-7, -1, 0, 1, 7, 10**6 + 1, -(10**6) - 1):
        for b in (1, 2, 3, 1000, 10**6):
            from . import sym

            sym.CTX = None
            assert sym.mk(sym._floordiv(bvval(a), bvval(b))) == a // b
            assert sym.mk(sym._mod(bvval(a), bvval(b))) == a % b
            n += 1
    return n


def test_json_model():
    """the value tree the json model attaches to a text == json.loads(json.dumps(obj)) of the real json, and the same exceptions"""
    import enum
    import math

    from . import symjson

    class E(enum.IntEnum):
        A = 3

    nan, inf = float("nan"), float("inf")
    objs = [{}, [], {"a": 1}, {1: "x", -5: [1, 2, (3, 4)]}, {True: 1, False: 2}, {None: 0}, {"k": {2**63: -(2**63)}}, [1.5, -0.0, 0.0, 1e308, 5e-324, inf, -inf],
            {"e": E.A, "s": "\ud800\u20ac\x00\"", "n": None, "t": True}, [[[]]], {"m": {"1": 1}}, b"x", {"b": b""}, {1.5: 1}, {(1, 2): 3}, {"x": {1, 2}}, [nan], {"f": nan}]  # fmt: skip
    n = 0

    def same(a, b):
        if isinstance(a, float) and isinstance(b, float):
            return (math.isnan(a) and math.isnan(b)) or (a == b and math.copysign(1, a) == math.copysign(1, b))
        if isinstance(a, dict) and isinstance(b, dict):
            return list(a) == list(b) and all(same(a[k], b[k]) for k in a)
        if isinstance(a, list) and isinstance(b, list):
            return len(a) == len(b) and all(same(x, y) for x, y in zip(a, b))
        return type(a) is type(b) and a == b

    for allow_nan in (True, False):
        for o in objs:
            try:
                want = json.loads(json.dumps(o, allow_nan=allow_nan))
            except (TypeError, ValueError) as e:
                want = type(e)
            try:
                got = symjson._value(o, allow_nan)
            except (TypeError, ValueError) as e:
                got = type(e)
            except BaseException as e:
                if type(e).__name__ == "Unsupported":
                    continue  # declared outside the model (float keys)
                raise
            assert (got is want) if isinstance(want, type) else same(got, want), (o, allow_nan, got, want)
            n += 1
    return n


def run_pinned_tests_under_hook():
    """the repository's pinned tests with the DESUGAR loader active on concrete values: identical outcome to the plain run"""
    code = (
        "import sys; sys.path.insert(0, %r); import vf.desugar as d; d.install(); import pytest; "
        "sys.exit(pytest.main(['-q','-p','no:cacheprovider','--timeout=900','--continue-on-collection-errors']))" % ROOT
    )
    repo = os.environ.get("VERIF_REPO", "/repo")
    env = dict(os.environ, PYTHONPATH=os.path.join(repo, "src"))
    a = subprocess.run([sys.executable, "-c", code], cwd=repo, capture_output=True, text=True, env=env)
    b = subprocess.run([sys.executable, "-m", "pytest", "-q", "-p", "no:cacheprovider", "--timeout=900", "--continue-on-collection-errors"], cwd=repo, capture_output=True, text=True, env=env)

    def tail(p):
        lines = [l for l in p.stdout.strip().splitlines() if " passed" in l or " failed" in l]
        return re.sub(r" in [0-9.]+s.*", "", lines[-1]) if lines else p.stdout[-300:] + p.stderr[-300:]

    return tail(a), tail(b)


def main():
    from . import worker

    t0 = time.time()
    worker.init_symbolic()
    ok = True
    for name, fn in (("regex model vs re", test_regex_model), ("repository casing inputs through the model", test_casing_pairs), ("utf-8 model vs CPython", test_utf8_model),
                     ("base64 model vs base64", test_base64_model), ("struct float model vs struct", test_struct_float_model), ("int model", test_int_model),
                     ("json model vs json", test_json_model)):  # fmt: skip
        try:
            n = fn()
            print("selftest %-45s ok (%d cases)" % (name, n), flush=True)
        except AssertionError as e:
            ok = False
            print("selftest %-45s FAILED: %r" % (name, e.args[:1]), flush=True)
    hooked, plain = run_pinned_tests_under_hook()
    same = hooked == plain
    print("selftest pinned tests under the DESUGAR hook: %s | plain: %s -> %s" % (hooked, plain, "identical" if same else "DIFFERENT"), flush=True)
    ok = ok and same
    print("selftest %s in %.1fs" % ("passed" if ok else "FAILED", time.time() - t0))
    return 0 if ok else 3
