"""Known findings: committed file /verif/known_findings.json, never written at run time.

entry = {id, property, unit (fnmatch pattern on the unit name), label (assertion that fails),
         region (python predicate over the harness inputs, or the name of a registered
         region function), witness {unit, inputs}, what}

A region is evaluated *symbolically* on the harness inputs and excuses only the named
assertion inside it: the property is still decided for all inputs outside the listed
regions, and for all other assertions inside them.
"""
import fnmatch
import json
import os

PATH = os.path.join(os.path.dirname(os.path.dirname(os.path.abspath(__file__))), "known_findings.json")


def load():
    if not os.path.exists(PATH):
        return {"findings": [], "fixed": []}
    with open(PATH) as f:
        return json.load(f)


def for_property(prop):
    return [e for e in load()["findings"] if e["property"] == prop]


def labels_of(e):
    return e["label"] if isinstance(e["label"], list) else [e["label"]]


def regions_for_unit(entries, unit_name):
    """label -> [(id, region)] for the entries that apply to this unit"""
    out = {}
    for e in entries:
        if fnmatch.fnmatchcase(unit_name, e["unit"]):
            for label in labels_of(e):
                out.setdefault(label, []).append((e["id"], e["region"]))
    return out
