"""C07 Oneof exclusivity holds after any history of operations."""
import copy as _copy

from .. import catalogue, shapes, sym
from ..shapes import Bounds, default_of
from ..spec import specjson as sj, specmsg as sm, specwire as sw

WARMUP = True  # a concrete first use of the harness before each path (vf/explore.py: WarmEnv)
PROPERTY = "C07"
B1 = Bounds(rep=1, mapn=1, strlen=1, depth=1, narrow=True)


def _member_value(env, cat, f, name, allow_default=True):
    """a value for oneof member f: the type default or a symbolic value (environment choice)"""
    if f.kind == "message":
        if not cat.shapes[f.msg].fields:
            return {}
        k = env.choose(name + "#msg", 2)
        return {} if k == 0 else {"x": shapes.gen_scalar(env, name + ".x", "int32", B1, True)}
    if allow_default and env.choose(name + "#default", 2) == 0:
        return 0 if f.kind == "enum" else default_of(f.kind)
    if f.kind == "enum":
        return [1, -1][env.choose(name + "#enum", 2)]
    return shapes.gen_scalar(env, name, f.kind, B1, True)


def _bp(mod, cat, f, v):
    return sm._bp_value(mod, cat, f, v)


def _pickle_model(m):
    f, args = m.__reduce__()
    return f(*args)


def observe_groups(env, cat, mod, m, model, label):
    """the observable clause of the property, for every group, against the abstract model
    model: {group: (member name or "", value tree)}"""
    import betterproto

    s = cat.shapes["M"]
    data = bytes(m)
    try:
        fields = sw.split_fields(data)
    except sw.SpecDecodeError as e:
        env.check(label + ":encoding-well-formed", False, str(e))
        return
    numbers = [n for n, _, _, _ in fields]
    d = m.to_dict()
    for g, members in s.groups().items():
        sel, val = model[g]
        name, got = betterproto.which_one_of(m, g)
        env.check(label + ":which_one_of-names-last-set", name == sel, "group %s: which_one_of=%r, last set=%r" % (g, name, sel))
        if name != sel:
            continue
        for f in members:
            if f.name == sel:
                if f.kind == "message":
                    ok = sm.canon_equal(cat, f.msg, sm.canon_of_bp(cat, f.msg, got), sm.canon_of_value(cat, f.msg, val))
                elif f.kind == "enum":
                    ok = int(got) == val
                else:
                    ok = sm.veq(f.kind, got, val)
                env.check(label + ":selected-member-value", ok)
                env.check(label + ":selected-member-on-the-wire", numbers.count(f.number) == 1, "numbers=%r" % (numbers,))
                env.check(label + ":selected-member-in-json", sj.json_name(f.name) in d, "keys=%r" % (sorted(d),))
            else:
                try:
                    getattr(m, f.name)
                    env.check(label + ":other-member-raises-AttributeError", False, "reading %s did not raise (selected %r)" % (f.name, sel))
                except AttributeError:
                    env.check(label + ":other-member-raises-AttributeError", True)
                env.check(label + ":no-sibling-on-the-wire", numbers.count(f.number) == 0, "sibling %s emitted; numbers=%r" % (f.name, numbers))
                env.check(label + ":no-sibling-in-json", sj.json_name(f.name) not in d, "keys=%r" % (sorted(d),))


def apply_op(env, cat, mod, m, model, tag, ops):
    """one operation chosen by the environment; returns the (possibly new) message"""
    s = cat.shapes["M"]
    groups = s.groups()
    op = ops[env.choose(tag + "op", len(ops))]
    if op == "set-member":
        g = sorted(groups)[env.choose(tag + "group", len(groups))]
        f = groups[g][env.choose(tag + "member", len(groups[g]))]
        v = _member_value(env, cat, f, tag + f.name)
        setattr(m, f.name, _bp(mod, cat, f, v))
        model[g] = (f.name, v)
    elif op == "set-plain":
        m.p = shapes.gen_scalar(env, tag + "p", "int32", B1, True)
    elif op == "parse":
        # bytes holding 0..2 members of group g in an environment-chosen order, merged into m
        g = "g"
        n = env.choose(tag + "count", 3)
        wire = sym.SymBytes([])
        for i in range(n):
            f = groups[g][env.choose(tag + "m%d" % i, len(groups[g]))]
            v = _member_value(env, cat, f, tag + "%d.%s" % (i, f.name))
            wire = wire + sm._enc_field(cat, f, v, sm.Knobs(), force=True)
            model[g] = (f.name, v)
        m.parse(sym.wire(wire))
    elif op == "from_dict":
        g = sorted(groups)[env.choose(tag + "group", len(groups))]
        f = groups[g][env.choose(tag + "member", len(groups[g]))]
        v = _member_value(env, cat, f, tag + f.name, allow_default=False)
        m.from_dict(sj.to_json(cat, "M", {f.name: v}, native_wrappers=True, native_map_keys=True, native_map_values=True))
        if f.kind == "message":
            v = dict(v)
            v["__received__"] = True
        model[g] = (f.name, v)
    elif op == "copy":
        m = _copy.copy(m)
    elif op == "deepcopy":
        m = _copy.deepcopy(m)
    elif op == "pickle":
        m = _pickle_model(m)
        for g in model:
            if model[g][0] and isinstance(model[g][1], dict):
                v = dict(model[g][1])
                v["__received__"] = True
                model[g] = (model[g][0], v)
    elif op == "construct":
        # a new message from keyword arguments: one member per group at most
        kw = {}
        for g in sorted(groups):
            k = env.choose(tag + "ctor." + g, len(groups[g]) + 1)
            if k:
                f = groups[g][k - 1]
                v = _member_value(env, cat, f, tag + "ctor." + f.name)
                kw[f.name] = _bp(mod, cat, f, v)
                model[g] = (f.name, v)
            else:
                model[g] = ("", None)
        m = mod.M(**kw)
    elif op == "construct-many":
        # keyword arguments naming two or three members of group g: the dataclass __init__ assigns in field order, the last one stays
        members = groups["g"]
        picked = [f for f in members if env.choose(tag + "ctor.pick." + f.name, 2)]
        if len(picked) < 2:
            env.cut("fewer than two members picked")
        kw = {}
        for f in picked:
            v = _member_value(env, cat, f, tag + "ctor." + f.name)
            kw[f.name] = _bp(mod, cat, f, v)
            model["g"] = (f.name, v)
        model["h"] = ("", None)
        m = mod.M(**kw)
    return m, op


OPS = ["set-member", "set-plain", "parse", "from_dict", "copy", "deepcopy", "pickle", "construct"]


def h_history(env):
    """operation sequences from a fresh message; the abstract model tracks the member set last.  Every object that was ever
    copied from stays alive and is observed after every later step (a copy must not share selection state with its source)."""
    cat = catalogue.get(env.params.get("cat", ["s2", "oneofs"]))
    mod = shapes.build_bp(cat)
    m = mod.M()
    model = {g: ("", None) for g in cat.shapes["M"].groups()}
    retained = []  # (object, its own model) left behind by copy / deepcopy / pickle / construct
    first = env.params.get("first")
    for i in range(env.params["steps"]):
        ops = [first] if (i == 0 and first) else (env.params.get("then%d" % i) or env.params.get("then", OPS))
        before, before_model = m, dict(model)
        m, op = apply_op(env, cat, mod, m, model, "s%d." % i, ops)
        if m is not before and op in ("copy", "deepcopy", "pickle"):
            retained.append((before, before_model))
        observe_groups(env, cat, mod, m, model, "after-step")
        for j, (obj, omodel) in enumerate(retained[-2:]):
            observe_groups(env, cat, mod, obj, omodel, "source-of-copy")
    env.observe("bytes", bytes(m))


def h_step(env):
    """inductive step: an arbitrary state satisfying the representation invariant, one operation, invariant + observable clause again"""
    import betterproto

    cat = catalogue.get(env.params.get("cat", ["s2", "oneofs"]))
    mod = shapes.build_bp(cat)
    s = cat.shapes["M"]
    m = mod.M()
    model = {}
    if not isinstance(getattr(m, "_group_current", None), dict) or not hasattr(betterproto, "PLACEHOLDER"):
        env.cut("the representation differs from the one this inductive step is written for (histories from the constructor cover the property)")
    # pre-state written directly into the representation (not through the operations under test)
    for g, members in s.groups().items():
        k = env.choose("pre." + g, len(members) + 1)
        if k == 0:
            model[g] = ("", None)
            continue
        f = members[k - 1]
        v = _member_value(env, cat, f, "pre." + f.name)
        object.__setattr__(m, f.name, _bp(mod, cat, f, v))
        m._group_current[g] = f.name
        model[g] = (f.name, v)
    object.__setattr__(m, "_serialized_on_wire", True)
    m, op = apply_op(env, cat, mod, m, model, "op.", [env.params["op"]])
    # the observable clause of the property after the operation
    observe_groups(env, cat, mod, m, model, "after-op")
    # representation invariant re-established (what makes one step speak for histories of any length).  It is a device of the argument,
    # not something the property states: where it fails the step proves nothing about longer histories, so one more operation is
    # applied to that very state and the observable clause is asserted again (only observables are ever reported); if that holds too
    # the path is left outside the claim
    intact = True
    for g, members in s.groups().items():
        cur = m._group_current.get(g)
        intact = env.proof_device("invariant:_group_current-is-a-member-or-None", cur is None or cur in [f.name for f in members], soft=True) and intact
        for f in members:
            raw = object.__getattribute__(m, f.name)
            if f.name == cur:
                intact = env.proof_device("invariant:selected-slot-filled", raw is not betterproto.PLACEHOLDER, soft=True) and intact
            else:
                intact = env.proof_device("invariant:other-slots-are-PLACEHOLDER", raw is betterproto.PLACEHOLDER, soft=True) and intact
    if not intact:
        m, op2 = apply_op(env, cat, mod, m, model, "op2.", ["copy", "deepcopy", "pickle", "set-plain", "parse", "from_dict"])
        observe_groups(env, cat, mod, m, model, "after-a-second-op")
        env.cut("proof device does not hold: representation invariant not re-established by %s (observables held after %s as well)" % (op, op2))


def h_time_members(env):
    """a oneof whose members are a Timestamp and a Duration (datetime / timedelta on the Python side): which_one_of, wire and JSON name the
    member set last and no sibling; concrete instants / spans (defaults included), the way of setting and the follow-up operation are choices"""
    import copy
    import datetime as _dt

    import betterproto

    from .c15 import positions_catalogue

    cat = positions_catalogue()
    mod = shapes.build_bp(cat)
    utc = _dt.timezone.utc
    stamps = [_dt.datetime(1970, 1, 1, tzinfo=utc), _dt.datetime(2001, 2, 3, 4, 5, 6, 789000, tzinfo=utc), _dt.datetime(1969, 12, 31, 23, 59, 59, 999999, tzinfo=utc)]
    spans = [_dt.timedelta(0), _dt.timedelta(seconds=-1, microseconds=500), _dt.timedelta(days=1, microseconds=1)]
    values = {"gt": stamps[env.choose("instant", len(stamps))], "gd": spans[env.choose("span", len(spans))]}
    first = ["", "gt", "gd"][env.choose("first", 3)]
    second = ["", "gt", "gd"][env.choose("second", 3)]
    how = env.choose("how", 3)
    if how == 0:
        m = mod.P(**({first: values[first]} if first else {}))
    elif how == 1:
        m = mod.P()
        if first:
            setattr(m, first, values[first])
    else:
        m = mod.P().parse(bytes(mod.P(**({first: values[first]} if first else {}))))
    if second:
        setattr(m, second, values[second])
    sel = second or first
    then = env.choose("then", 5)
    if then == 1:
        m = copy.copy(m)
    elif then == 2:
        m = copy.deepcopy(m)
    elif then == 3:
        m = mod.P().from_dict(m.to_dict())
    elif then == 4:
        m = mod.P().parse(bytes(m))
    name, got = betterproto.which_one_of(m, "g")
    env.check("time-members:which_one_of-names-last-set", name == sel, "which_one_of=%r last set=%r" % (name, sel))
    if sel:
        env.check("time-members:selected-member-value", got == values[sel], "%r" % (got,))
    numbers = [n for n, _, _, _ in sw.split_fields(bytes(m))]
    for casing in (betterproto.Casing.CAMEL, betterproto.Casing.SNAKE):
        d = m.to_dict(casing=casing)
        for f, number in (("gt", 5), ("gd", 6)):
            if f == sel:
                env.check("time-members:selected-member-on-the-wire", numbers.count(number) == 1, "numbers=%r" % (numbers,))
                env.check("time-members:selected-member-in-json", f in d, "keys=%r" % (sorted(d),))
            else:
                env.check("time-members:no-sibling-on-the-wire", numbers.count(number) == 0, "numbers=%r" % (numbers,))
                env.check("time-members:no-sibling-in-json", f not in d, "keys=%r" % (sorted(d),))
                try:
                    getattr(m, f)
                    env.check("time-members:other-member-raises-AttributeError", False, f)
                except AttributeError:
                    env.check("time-members:other-member-raises-AttributeError", True)
        back = mod.P().from_dict(d)
        env.check("time-members:json-round-trip-keeps-selection", betterproto.which_one_of(back, "g")[0] == sel and bytes(back) == bytes(m))


def units(tier):
    u = []
    u.append(("oneof of Timestamp / Duration members", h_time_members, {}))
    for op in OPS:
        u.append(("step[%s]" % op, h_step, {"op": op}))
    steps = 2 if tier == "quick" else 3
    for first in OPS:
        u.append(("history[%d steps, first=%s]" % (steps, first), h_history, {"steps": steps, "first": first}))
    # a constructor given several members of one group, then further operations (3 steps: construct, assign, copy ...)
    for op in OPS:
        u.append(("step[%s | field-less members]" % op, h_step, {"op": op, "cat": ["s2", "oneofs-nil"]}))
    for first in ("construct", "set-member", "parse", "from_dict"):
        if first in OPS:
            u.append(("history[2 steps, first=%s | field-less members]" % first, h_history, {"steps": 2, "first": first, "cat": ["s2", "oneofs-nil"]}))
    # the same, focused: several members to the constructor, then an assignment, then something that rebuilds the message
    u.append(("history[construct-many, set-member, copy/deepcopy/pickle/from_dict]", h_history,
              {"steps": 3, "first": "construct-many", "then1": ["set-member"], "then2": ["copy", "deepcopy", "pickle", "from_dict"]}))
    u.append(("history[3 steps, first=construct-many]", h_history, {"steps": 3, "first": "construct-many", "then": ["set-member", "copy", "deepcopy", "pickle", "parse"]}))
    if tier == "thorough":
        u.append(("history[4 steps]", h_history, {"steps": 4}))
        u.append(("history[4 steps, first=construct-many]", h_history, {"steps": 4, "first": "construct-many"}))
    return u


BUDGET = {"quick": 200, "thorough": 1200}
UNIT_PATH_CAP = {"quick": 3000, "thorough": 100000}
BOUNDS = {
    "quick": "message with two oneof groups (int32/string/enum/message members; bool/bytes members) and plain fields; inductive step: every pre-state "
    "satisfying the representation invariant x every operation of {set member to default / symbolic value, set plain field, parse bytes with 0-2 members "
    "in any order, instance from_dict, copy, deepcopy, pickle round trip, construct with kwargs}; histories of 2 operations from a fresh message "
    "(values one byte wide, strings <= 1 code point)",
    "thorough": "histories of 3 operations for every first operation and of 4 operations (capped at 100000 paths)",
}
OUTSIDE = "shapes other than the two-group message, wide values, histories longer than the bound"
