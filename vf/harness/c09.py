"""C09 len(m) equals the encoded size and dump() writes exactly bytes(m)."""
from .. import catalogue, shapes, sym
from ..spec import specmsg as sm, specwire as sw
from .c01 import bounds

WARMUP = True  # a concrete first use of the harness before each path (vf/explore.py: WarmEnv)
PROPERTY = "C09"


def gen_unknown(env, pfx="unk", known=(), padded=False):
    """one well-formed unknown field: symbolic number (not 1..40 nor a known number, any up to 2**29-1), any wire type, symbolic payload;
    padded: the tag / value / length varints may carry one padding byte (a legal non-minimal encoding that must be re-emitted as received)"""
    number = env.int(pfx + ".number", 41, (1 << 29) - 1)
    for n in known:
        if n > 40:
            env.assume(number != n)
    wt = [0, 1, 2, 5][env.choose(pfx + ".wt", 4)]
    pt = env.choose(pfx + ".pad-tag", 2) if padded else 0
    pv = env.choose(pfx + ".pad-value", 2) if padded and wt in (0, 2) else 0
    if wt == 0:
        return sw.cat(sw.tag(number, 0, pt), sw.varint(env.int(pfx + ".varint", 0, (1 << 64) - 1), pv))
    if wt == 1:
        return sw.cat(sw.tag(number, 1, pt), env.bytes(pfx + ".f64", 8))
    if wt == 5:
        return sw.cat(sw.tag(number, 5, pt), env.bytes(pfx + ".f32", 4))
    n = env.choose(pfx + ".len", 3)
    return sw.cat(sw.tag(number, 2, pt), sw.varint(n, pv, 5), env.bytes(pfx + ".payload", n))


def h_len(env):
    import betterproto

    cat = catalogue.get(env.params["cat"])
    mod = shapes.build_bp(cat)
    val = shapes.gen_value(env, cat, "M", b=bounds(env.tier, env.params))
    if env.params.get("unknown"):
        val["__unknown__"] = gen_unknown(env, known=[f.number for f in cat.shapes["M"].fields])
    m = sm.to_bp(mod, cat, "M", val)
    data = bytes(m)
    env.observe("bytes", data)
    n = m.__len__()
    env.check("len==len(bytes)", n == len(data))
    s = betterproto.BytesIO()
    m.dump(s)
    env.check("dump==bytes", s.getvalue() == data)
    s2 = betterproto.BytesIO()
    m.dump(s2, betterproto.SIZE_DELIMITED)
    env.check("delimited==varint(len)+bytes", s2.getvalue() == sw.length_prefixed(data))
    env.check("SerializeToString==bytes", m.SerializeToString() == data)
    # a decoded message measures the same
    m2 = mod.M().parse(data)
    env.check("decoded-len", m2.__len__() == len(bytes(m2)))
    if not env.sym:
        env.check("builtin-len", len(m) == len(data))
        from google.protobuf import proto

        ref = shapes.build_ref(cat)
        import io

        try:
            r = proto.parse_length_prefixed(ref["M"], io.BytesIO(bytes(s2.getvalue())))
            env.check("witness:reference-reads-delimited", r is not None and r.SerializeToString(deterministic=True) is not None)
        except Exception as e:  # pragma: no cover
            env.check("witness:reference-reads-delimited", False, repr(e))


def h_len_after_edit(env):
    """len / delimited dump, an in-place edit that does not go through the message's own attribute assignment
    (append to a repeated field, set a map entry, assign inside a nested message), then len / delimited dump again"""
    import betterproto

    cat = catalogue.get(env.params["cat"])
    mod = shapes.build_bp(cat)
    b = shapes.Bounds(rep=1, mapn=1, strlen=1, depth=2, narrow=True)
    val = shapes.gen_value(env, cat, "M", b=b)
    m = sm.to_bp(mod, cat, "M", val)
    first = m.__len__()
    env.check("len==len(bytes)", first == len(bytes(m)))
    s0 = betterproto.BytesIO()
    m.dump(s0, betterproto.SIZE_DELIMITED)
    edited = False
    for f in cat.shapes["M"].fields:
        if f.group:
            continue
        if f.label == "repeated":
            x = getattr(m, f.name)
            if f.kind == "message":
                x.append(getattr(mod, f.msg)())
            elif f.kind == "enum":
                x.append(getattr(mod, f.enum).try_value(1))
            else:
                x.append(shapes.gen_scalar(env, "edit." + f.name, f.kind, b, True))
            edited = True
        elif f.label == "map" and f.kind != "message":
            getattr(m, f.name)[shapes.gen_scalar(env, "edit.k." + f.name, f.key, b, True)] = shapes.gen_scalar(env, "edit.v." + f.name, f.kind, b, True) if f.kind != "enum" else getattr(mod, f.enum).try_value(1)
            edited = True
        elif f.kind == "message" and not f.wraps and f.label == "singular":
            sub = getattr(m, f.name)
            if not cat.shapes[f.msg].fields:
                continue
            inner = cat.shapes[f.msg].fields[0]
            if inner.kind in sw.RANGES and inner.label == "singular" and not inner.group:
                setattr(sub, inner.name, shapes.gen_scalar(env, "edit." + f.name, inner.kind, b, True))
                edited = True
            elif inner.kind == "message" and inner.label == "singular" and not inner.wraps and cat.shapes[inner.msg].fields:
                # two lazily created levels down: m.mid.leaf.x = ...  (nothing on the way was ever assigned)
                deep = getattr(sub, inner.name)
                leaf = cat.shapes[inner.msg].fields[0]
                if leaf.kind in sw.RANGES and not leaf.group:
                    setattr(deep, leaf.name, shapes.gen_scalar(env, "edit2." + f.name, leaf.kind, b, True))
                    edited = True
            for g in cat.shapes[f.msg].fields:
                # a list inside a lazily created sub-message, appended to in place
                if g.label == "repeated" and g.kind in sw.RANGES:
                    getattr(sub, g.name).append(shapes.gen_scalar(env, "edit.l." + f.name, g.kind, b, True))
                    edited = True
                    break
    if not edited:
        env.cut("nothing to edit in place")
    data = bytes(m)
    env.observe("bytes", data)
    env.check("len-after-edit==len(bytes)", m.__len__() == len(data))
    s1 = betterproto.BytesIO()
    m.dump(s1, betterproto.SIZE_DELIMITED)
    env.check("delimited-after-edit==varint(len)+bytes", s1.getvalue() == sw.length_prefixed(data))
    back = mod.M().load(betterproto.BytesIO(s1.getvalue()), betterproto.SIZE_DELIMITED)
    env.check("delimited-after-edit-reads-back", back == m)


LONG_LENS = [125, 126, 127, 128, 129, 16381, 16382, 16383, 16384, 16385]
LONG_NUMBERS = [1, 15, 16, 2047, 2048]


def long_catalogue():
    from ..shapes import F, Catalogue, Shape, STD_ENUM

    shp = [Shape("Leaf", [F("x", 1, "int32"), F("s", 2, "string")])]
    for i, n in enumerate(LONG_NUMBERS):
        shp.append(Shape("S%d" % i, [F("v", n, "string")]))
        shp.append(Shape("B%d" % i, [F("v", n, "bytes")]))
        shp.append(Shape("N%d" % i, [F("v", n, "message", msg="Leaf")]))
        shp.append(Shape("P%d" % i, [F("v", n, "bool", "repeated")]))
        shp.append(Shape("M%d" % i, [F("v", n, "string", "map", key="string")]))
    return Catalogue("c09-long", shp, [STD_ENUM])


def h_long(env):
    """length-delimited payloads whose size sits on a boundary of the length-prefix varint (127/128, 16383/16384 bytes), for
    strings, bytes, nested messages, packed lists and map entries, at field numbers with 1- and 2-byte tags"""
    import betterproto

    cat = long_catalogue()
    mod = shapes.build_bp(cat)
    kind = env.params["kind"]
    i = env.choose("number", len(LONG_NUMBERS))
    n = LONG_LENS[env.choose("size", len(LONG_LENS))]
    c = env.int("c", 0x20, 0x7E)  # one symbolic character / byte, the rest is filler
    def text(k):
        if not k:
            return ""
        if env.sym:
            import z3

            from ..symstr import SymStr

            return SymStr([z3.Extract(20, 0, c.t)] + [0x61] * (k - 1))
        return chr(c) + "a" * (k - 1)

    def blob(k):
        if not k:
            return b""
        if env.sym:
            import z3

            from ..sym import SymBytes

            return SymBytes([z3.Extract(7, 0, c.t)] + [0x62] * (k - 1))
        return bytes([c]) + b"b" * (k - 1)

    if kind == "string":
        m = getattr(mod, "S%d" % i)(v=text(n))
    elif kind == "bytes":
        m = getattr(mod, "B%d" % i)(v=blob(n))
    elif kind == "message":
        # nested payload = tag(1) + length prefix + L bytes: choose L so that the nested payload is n bytes
        L = n - 2 if n - 2 < 128 else n - 3
        m = getattr(mod, "N%d" % i)(v=mod.Leaf(s=text(L)))
    elif kind == "packed":
        k = n if n < 1000 else 300  # one byte per element
        m = getattr(mod, "P%d" % i)(v=[env.bool("b0")] + [True] * (k - 1))
    else:
        L = n - 4 if n - 4 < 128 else n - 5  # entry = key field "k" (3 bytes) + value tag + prefix + L
        m = getattr(mod, "M%d" % i)(v={"k": text(L)})
    data = bytes(m)
    env.observe("size", len(data))
    env.check("len==len(bytes)", m.__len__() == len(data))
    s2 = betterproto.BytesIO()
    m.dump(s2, betterproto.SIZE_DELIMITED)
    env.check("delimited==varint(len)+bytes", s2.getvalue() == sw.length_prefixed(data))
    back = type(m)().parse(data)
    env.check("round-trip", back == m)
    env.check("re-encode-identical", bytes(back) == data)
    rd = betterproto.BytesIO(s2.getvalue() + s2.getvalue())
    first = type(m)().load(rd, betterproto.SIZE_DELIMITED)
    env.check("delimited-read-back", first == m and rd.tell() == len(s2.getvalue()))
    if not env.sym:
        ref = shapes.build_ref(cat)
        r = ref[type(m).__name__].FromString(bytes(data))
        env.check("witness:reference-same-size", len(r.SerializeToString()) == len(data))


def units(tier):
    u = []
    for kind in catalogue.S1_KINDS:
        for label in catalogue.LABELS:
            if kind.startswith("wrap:") and label in ("optional", "repeated"):
                continue
            u.append(("len[s1 %s %s]" % (kind, label), h_len, {"cat": ["s1", kind, label]}))
    for key, vk in (("int32", "int32"), ("string", "message"), ("bool", "bytes"), ("sint64", "double"), ("string", "enum")):
        u.append(("len[map %s->%s]" % (key, vk), h_len, {"cat": ["s1map", key, vk]}))
    for name in catalogue.S2_NAMES:
        u.append(("len[s2 %s]" % name, h_len, {"cat": ["s2", name]}))
    for name in ("oneofs", "optionals", "nested"):
        u.append(("len[s2 %s +unknown]" % name, h_len, {"cat": ["s2", name], "unknown": True}))
    for kind in ("int32", "string", "message"):
        u.append(("len[s1 %s singular +unknown]" % kind, h_len, {"cat": ["s1", kind, "singular"], "unknown": True}))
    for kind in ("string", "bytes", "message", "packed", "map"):
        u.append(("long-payload[%s]" % kind, h_long, {"kind": kind}))
    for name in ("packed", "repmsg", "mapmsg", "nested", "recursive", "maps2"):
        u.append(("len-after-in-place-edit[s2 %s]" % name, h_len_after_edit, {"cat": ["s2", name]}))
    return u


BUDGET = {"quick": 150, "thorough": 1200}
UNIT_PATH_CAP = {"quick": 500, "thorough": 40000}
BOUNDS = {
    "quick": "payload sizes on the 127/128 and 16383/16384 boundaries of the length prefix (string, bytes, nested message, packed list, map entry; field numbers 1, 15, 16, 2047, 2048); catalogue S1 + 5 map shapes + 10 S2 shapes, 6 of them also with one unknown field (symbolic number 41..2**29-1, wire types 0/1/2/5, "
    "symbolic payload); sizes as C01; S2 units capped at 500 paths (remainder reported as unexplored)",
    "thorough": "same shapes with larger containers and no per-unit cap below 40000 paths",
}
OUTSIDE = "Timestamp/Duration fields, shapes outside the catalogue, more than one unknown field (C08 covers runs)"
