"""C09 len(m) equals the encoded size and dump() writes exactly bytes(m)."""
from .. import catalogue, shapes, sym
from ..spec import specmsg as sm, specwire as sw
from .c01 import bounds

PROPERTY = "C09"


def gen_unknown(env, pfx="unk", known=()):
    """one well-formed unknown field: symbolic number (not 1..40 nor a known number, any up to 2**29-1), any wire type, symbolic payload"""
    number = env.int(pfx + ".number", 41, (1 << 29) - 1)
    for n in known:
        if n > 40:
            env.assume(number != n)
    wt = [0, 1, 2, 5][env.choose(pfx + ".wt", 4)]
    if wt == 0:
        return sw.cat(sw.tag(number, 0), sw.varint(env.int(pfx + ".varint", 0, (1 << 64) - 1)))
    if wt == 1:
        return sw.cat(sw.tag(number, 1), env.bytes(pfx + ".f64", 8))
    if wt == 5:
        return sw.cat(sw.tag(number, 5), env.bytes(pfx + ".f32", 4))
    n = env.choose(pfx + ".len", 3)
    return sw.len_field(number, env.bytes(pfx + ".payload", n))


def h_len(env):
    import betterproto

    cat = catalogue.get(env.params["cat"])
    mod = shapes.build_bp(cat)
    val = shapes.gen_value(env, cat, "M", b=bounds(env.tier, env.params))
    if env.params.get("unknown"):
        val["__unknown__"] = gen_unknown(env, known=[f.number for f in cat.shapes["M"].fields])
    m = sm.to_bp(mod, cat, "M", val)
    data = bytes(m)
    env.observe("bytes", data)
    n = m.__len__()
    env.check("len==len(bytes)", n == len(data))
    s = betterproto.BytesIO()
    m.dump(s)
    env.check("dump==bytes", s.getvalue() == data)
    s2 = betterproto.BytesIO()
    m.dump(s2, betterproto.SIZE_DELIMITED)
    env.check("delimited==varint(len)+bytes", s2.getvalue() == sw.length_prefixed(data))
    env.check("SerializeToString==bytes", m.SerializeToString() == data)
    # a decoded message measures the same
    m2 = mod.M().parse(data)
    env.check("decoded-len", m2.__len__() == len(bytes(m2)))
    if not env.sym:
        env.check("builtin-len", len(m) == len(data))
        from google.protobuf import proto

        ref = shapes.build_ref(cat)
        import io

        try:
            r = proto.parse_length_prefixed(ref["M"], io.BytesIO(bytes(s2.getvalue())))
            env.check("oracle:reference-reads-delimited", r is not None and r.SerializeToString(deterministic=True) is not None)
        except Exception as e:  # pragma: no cover
            env.check("oracle:reference-reads-delimited", False, repr(e))


def units(tier):
    u = []
    for kind in catalogue.S1_KINDS:
        for label in catalogue.LABELS:
            if kind.startswith("wrap:") and label in ("optional", "repeated"):
                continue
            u.append(("len[s1 %s %s]" % (kind, label), h_len, {"cat": ["s1", kind, label]}))
    for key, vk in (("int32", "int32"), ("string", "message"), ("bool", "bytes"), ("sint64", "double"), ("string", "enum")):
        u.append(("len[map %s->%s]" % (key, vk), h_len, {"cat": ["s1map", key, vk]}))
    for name in catalogue.S2_NAMES:
        u.append(("len[s2 %s]" % name, h_len, {"cat": ["s2", name]}))
    for name in ("oneofs", "optionals", "nested"):
        u.append(("len[s2 %s +unknown]" % name, h_len, {"cat": ["s2", name], "unknown": True}))
    for kind in ("int32", "string", "message"):
        u.append(("len[s1 %s singular +unknown]" % kind, h_len, {"cat": ["s1", kind, "singular"], "unknown": True}))
    return u


BUDGET = {"quick": 150, "thorough": 1500}
UNIT_PATH_CAP = {"quick": 500, "thorough": 40000}
BOUNDS = {
    "quick": "catalogue S1 + 5 map shapes + 10 S2 shapes, 6 of them also with one unknown field (symbolic number 41..2**29-1, wire types 0/1/2/5, "
    "symbolic payload); sizes as C01; S2 units capped at 500 paths (remainder reported as unexplored)",
    "thorough": "same shapes with larger containers and no per-unit cap below 40000 paths",
}
OUTSIDE = "Timestamp/Duration fields, shapes outside the catalogue, more than one unknown field (C08 covers runs)"
