"""C05 JSON output and input follow the canonical proto3 JSON mapping."""
import z3

from .. import catalogue, shapes, sym
from ..explore import region_func
from ..shapes import Bounds
from ..spec import specjson as sj, specmsg as sm
from ..symstr import SymStr, cterm
from .c01 import bounds
from .c04 import canonical_nans
from .c19 import ident, same, _search

WARMUP = True  # a concrete first use of the harness before each path (vf/explore.py: WarmEnv)
PROPERTY = "C05"
FILES = ["betterproto/__init__.py", "betterproto/casing.py"]


def sym_setup(betterproto):
    from .c15 import sym_setup as time_setup

    return time_setup(betterproto)


def json_name_sym(s):
    """protoc's ToJsonName over a (possibly symbolic) identifier"""
    if not getattr(s, "_vf_sym", False):
        return sj.json_name(s)
    out = []
    up = False
    for c in s.items:
        t = cterm(c)
        if sym.B(t == 95):
            up = True
        elif up:
            out.append(c - 32 if sym.B(z3.And(z3.UGE(t, 97), z3.ULE(t, 122))) else c)
            up = False
        else:
            out.append(c)
    return SymStr(out)


@region_func
def c05_json_name_region(env):
    """proto field names for which betterproto's key differs from protoc's json_name: leading underscores before a letter,
    an upper-case first letter, an upper-case run not followed by a lower-case letter, a digit followed by a lower-case letter"""
    n = env.vars["name"]
    return _search(r"^_+[A-Za-z]", n) or _search(r"^[A-Z]", n) or _search(r"[A-Z][A-Z]([^a-z]|$)", n) or _search(r"[0-9][a-z]", n)


def _nonfinite(v):
    if getattr(v, "_vf_float", False):
        return sym.sym_or(v.isnan(), v.isinf())
    return v != v or v in (float("inf"), float("-inf"))


@region_func
def c05_wrapper_native(env):
    """a set wrapper field whose canonical JSON form differs from the Python value: 64-bit ints (strings), bytes (base64), non-finite floats (strings)"""
    cat = catalogue.get(env.params["cat"])
    val = env.aux.get("val", {})
    parts = []
    for f in cat.shapes["M"].fields:
        if f.wraps and f.name in val:
            if f.wraps in ("int64", "uint64", "bytes"):
                return True
            if f.wraps in ("float", "double"):
                parts.append(_nonfinite(val[f.name]))
    return sym.sym_or(*parts)


@region_func
def c05_map_value_native(env):
    """a map entry whose value's canonical JSON form differs from the Python value: 64-bit ints, bytes, enums (names), non-finite floats"""
    cat = catalogue.get(env.params["cat"])
    val = env.aux.get("val", {})
    parts = []
    for f in cat.shapes["M"].fields:
        if f.label == "map" and len(val.get(f.name, ())):
            if f.kind in sj.INT64_KINDS or f.kind in ("bytes", "enum"):
                return True
            if f.kind in ("float", "double"):
                parts += [_nonfinite(x) for _, x in val[f.name]]
    return sym.sym_or(*parts)


@region_func
def c05_json_name_accept_region(env):
    f = env.aux["field"]
    n = env.vars["name"]
    return _search(r"[A-Z]", n) or _search(r"^_+[a-z]_+[a-z]", n) or _search(r"[a-z0-9]_[0-9]", f) or _search(r"_[a-z]_[a-z]([0-9_]|$)", f)


def h_keys(env):
    """the key to_dict emits for the field the plugin creates == the JSON name protoc assigns; and it is accepted back"""
    from betterproto import casing

    n = ident(env, "name", env.params["n"])
    field = casing.safe_snake_case(n)  # the python field name the plugin generates
    env.aux["field"] = field
    key = casing.camel_case(field).rstrip("_")  # Message.to_dict: casing(field_name).rstrip("_")
    want = json_name_sym(n)
    env.observe("key", key)
    env.check("emitted-key==protoc-json-name", same(key, want))
    # accept direction: the reference's key (json_name) and the original proto name are mapped to the field by from_dict
    env.check("protoc-json-name-accepted", same(casing.safe_snake_case(want), field))
    env.check("proto-name-accepted", same(casing.safe_snake_case(n), field))


def normalise_keys(d):
    """model of what json.dumps does to mapping keys (ints / bools become strings); values untouched"""
    if isinstance(d, dict):
        out = {}
        for k, v in d.items():
            if isinstance(k, (bool, sym.SymBool)):
                k = "true" if k else "false"
            elif isinstance(k, (int, sym.SymInt)):
                k = str(k)
            out[k] = normalise_keys(v)
        return out
    if isinstance(d, list):
        return [normalise_keys(x) for x in d]
    return d


def h_values(env):
    import betterproto

    cat = catalogue.get(env.params["cat"])
    mod = shapes.build_bp(cat)
    val = shapes.gen_value(env, cat, "M", b=bounds(env.tier, env.params))
    canonical_nans(env)
    env.aux["val"] = val
    m = sm.to_bp(mod, cat, "M", val)
    env.observe("bytes", bytes(m))
    want = sj.to_json(cat, "M", val)
    try:
        d = m.to_dict()
    except Exception as e:
        if type(e).__name__ in ("Unsupported", "EngineLimit"):
            raise
        env.check("to_dict-does-not-raise", False, repr(e))
        d = None
    if d is not None:
        env.check("emitted-json==canonical-mapping", sj.json_equal(normalise_keys(d), want), "emitted %r canonical %r" % (_show(d), _show(want)))
    # accept direction at object level: the canonical JSON object is read back as the same message
    try:
        back = mod.M().from_dict(want)
        ok = sym.sym_and(back == m, bytes(back) == bytes(m))
    except Exception as e:
        if type(e).__name__ in ("Unsupported", "EngineLimit"):
            raise
        ok = False
    env.check("canonical-json-accepted", ok)
    if not env.sym:
        from google.protobuf import json_format

        ref = shapes.build_ref(cat)
        exp = sm.canon_of_value(cat, "M", val)
        # the spec model itself against the reference (oracle validation)
        import json

        try:
            r0 = json_format.Parse(json.dumps(want), ref["M"]())
            env.check("oracle:reference-accepts-canonical-json", sm.canon_equal(cat, "M", sm.canon_of_ref(cat, "M", r0), exp, unknown=False))
        except Exception as e:
            env.check("oracle:reference-accepts-canonical-json", False, repr(e))
        # betterproto's text -> reference
        try:
            text = m.to_json()
            r = json_format.Parse(text, ref["M"]())
            env.check("witness:reference-reads-betterproto-json", sm.canon_equal(cat, "M", sm.canon_of_ref(cat, "M", r), exp, unknown=False), text[:200])
        except Exception as e:
            env.check("witness:reference-reads-betterproto-json", False, repr(e)[:300])
        # reference's text -> betterproto
        try:
            rr = sm.to_ref(ref, cat, "M", val)
            text = json_format.MessageToJson(rr)
            back = mod.M().from_json(text)
            # the same message: equal, or at least encoding to the same bytes (map order is free; a binary32 value printed with 9 digits is a different double)
            env.check("witness:betterproto-reads-reference-json", back == m or bytes(back) == bytes(m), text[:200].replace("\n", " "))
        except Exception as e:
            env.check("witness:betterproto-reads-reference-json", False, repr(e)[:300])


def _show(d):
    try:
        return repr(d)[:200]
    except Exception:
        return "<symbolic>"


def units(tier):
    u = []
    for n in range(1, (4 if tier == "quick" else 6) + 1):
        u.append(("keys[len=%d]" % n, h_keys, {"n": n}))
    cats = []
    for kind in catalogue.S1_KINDS:
        for label in catalogue.LABELS:
            if kind.startswith("wrap:") and label in ("optional", "repeated"):
                continue
            cats.append(("s1 %s %s" % (kind, label), ["s1", kind, label]))
    for key, vk in (("int32", "int32"), ("string", "message"), ("bool", "string"), ("uint64", "enum"), ("sint64", "double"), ("string", "bytes")):
        cats.append(("map %s->%s" % (key, vk), ["s1map", key, vk]))
    cats += [("s2 " + n, ["s2", n]) for n in catalogue.S2_NAMES]
    for name, c in cats:
        u.append(("values[%s]" % name, h_values, {"cat": c}))
    from .c15 import h_positions

    # Timestamp (RFC 3339) / Duration (decimal seconds) strings are produced and parsed by C code: cross-acceptance with the
    # reference is evaluated at solver-chosen and boundary witnesses, in repeated / optional / oneof / map-value position
    u.append(("time-fields[Timestamp, Duration | reference JSON both ways]", h_positions, {}))
    from .c15 import h_duration_json, h_timestamp_json

    # the emitted strings themselves, decided for every instant / span (formatting logic executed symbolically)
    u.append(("timestamp-json[all instants, any offset]", h_timestamp_json, {}))
    u.append(("duration-json[all spans]", h_duration_json, {}))
    return u


BUDGET = {"quick": 240, "thorough": 1200}
UNIT_PATH_CAP = {"quick": 400, "thorough": 20000}
BOUNDS = {
    "quick": "key clause: every proto identifier of length 1..4; value clause: catalogue S1 + 6 map shapes + 10 S2 shapes, values and sizes as C01; the emitted "
    "dict is compared with the canonical mapping (specjson) symbolically; the reference's parser / printer (json_format) run at every path witness in both directions",
    "thorough": "identifiers up to length 6; 20000 paths per unit",
}
OUTSIDE = "Timestamp / Duration / finite-float text (C code), names longer than the bound, the reference's leniencies (it accepts more than it emits), non-canonical NaN payloads"
