"""C16 Scalar codec primitives are total, canonical and mutually inverse."""
from ..spec import specwire as sw

WARMUP = True  # a concrete first use of the harness before each path (vf/explore.py: WarmEnv)
PROPERTY = "C16"
TITLE = "Scalar codec primitives"


def _stream(bp, data=b""):
    return bp.BytesIO(data) if hasattr(bp, "BytesIO") else None


def h_varint_roundtrip(env):
    """x over [-2**63, 2**64): canonical bytes, decode inverse, size agreement (all four entry points)"""
    import betterproto as bp

    x = env.int("x", -(1 << 63), (1 << 64) - 1)
    u = x & sw.M64  # two's complement image
    b = bp.encode_varint(x)
    env.observe("bytes", b)
    spec = sw.varint(u)
    env.check("encode==spec", b == spec)
    n = len(b)
    # canonical form spelled out independently of the spec encoder
    for i in range(n):
        env.check("continuation-bit", (b[i] >= 0x80) if i < n - 1 else (b[i] < 0x80))
    env.check("minimal", n == 1 or b[n - 1] != 0)
    env.check("negatives-10-bytes", n == 10 if (x < 0) else True)
    v, pos = bp.decode_varint(b, 0)
    env.check("decode-value", v == u)
    env.check("decode-consumed", pos == n)
    env.check("size", bp.size_varint(x) == n)
    s = bp.BytesIO(b)
    v2, raw = bp.load_varint(s)
    env.check("load-value", v2 == u)
    env.check("load-raw", raw == b)
    env.check("load-consumed", s.tell() == n)
    s2 = bp.BytesIO()
    bp.dump_varint(x, s2)
    env.check("dump==encode", s2.getvalue() == b)
    # decoding at an offset inside a larger buffer
    v3, pos3 = bp.decode_varint(b"\xff" + b + b"\x01", 1)
    env.check("decode-offset", v3 == u)
    env.check("decode-offset-consumed", pos3 == n + 1)


def h_varint_reject(env):
    """integers below -2**63 are rejected by the encoder and by size_varint"""
    import betterproto as bp

    x = env.int("x", -(1 << 80), -(1 << 63) - 1)
    for name, f in (("encode", bp.encode_varint), ("size", bp.size_varint)):
        try:
            f(x)
        except ValueError:
            env.check("reject-" + name, True)
        else:
            env.check("reject-" + name, False)
    try:
        bp.dump_varint(x, bp.BytesIO())
    except ValueError:
        env.check("reject-dump", True)
    else:
        env.check("reject-dump", False)


def h_decode_arbitrary(env):
    """arbitrary byte strings of length n at any start offset: outcome class, value, consumed"""
    import betterproto as bp

    n = env.params["n"]
    buf = env.bytes("buf", n)
    pos = env.choose("pos", n + 1)
    # spec: first byte without continuation bit
    k = None
    for i in range(pos, n):
        if buf[i] < 0x80:
            k = i - pos
            break
    avail = n - pos
    for entry in ("decode", "load"):
        try:
            if entry == "decode":
                v, newpos = bp.decode_varint(buf, pos)
            else:
                s = bp.BytesIO(buf)
                s.seek(pos)
                v, raw = bp.load_varint(s)
                newpos = pos + len(raw)
                env.check("load-raw-is-slice", raw == buf[pos:newpos])
                env.check("load-tell", s.tell() == newpos)
        except ValueError:
            # longer than 10 bytes: ten continuation bytes are present
            env.check(entry + "-valueerror-iff-too-long", (k is None or k >= 10) and avail >= 10)
        except EOFError:
            env.check(entry + "-eof-iff-premature", k is None and avail < 10)
        else:
            env.check(entry + "-accept-iff-terminated", k is not None and k < 10)
            if k is not None and k < 10:
                env.check(entry + "-consumed", newpos == pos + k + 1)
                total = 0
                for i in range(k + 1):
                    total = total | ((buf[pos + i] & 0x7F) << (7 * i))
                env.check(entry + "-value-mod-2^64", (v & sw.M64) == (total & sw.M64))
                env.observe(entry + "-value", v)


INT_KINDS = ["int32", "int64", "uint32", "uint64", "sint32", "sint64", "fixed32", "sfixed32", "fixed64", "sfixed64"]
NUMBERS = [1, 15, 16, 2047, 2048, (1 << 29) - 1]


def h_scalar_field(env):
    """single-field message: bytes == spec bytes (== reference bytes at the witness), decode inverse"""
    from .. import shapes

    kind = env.params["kind"]
    cat = shapes.single_field_catalogue(kind, NUMBERS)
    mod = shapes.build_bp(cat)
    ni = env.choose("number", len(NUMBERS))
    number = NUMBERS[ni]
    cls = getattr(mod, "S%d" % ni)
    if env.params.get("wide"):
        # a float field given any double that rounds (to nearest even) to a finite binary32: what Python callers actually pass
        v = env.f64("v")
        if env.sym:
            import z3

            from ..symfloat import F32, RNE
            from ..sym import mkb

            n32 = z3.fpFPToFP(RNE, v.fp, F32)
            # (doubles that underflow to +-0.0 in binary32 are left out: the library emits the field with a zero payload, the reference
            # stores the binary32 zero and treats it as the default - same value, different bytes, and not a binary32 value to begin with)
            env.assume(mkb(z3.And(z3.Not(z3.fpIsNaN(v.fp)), z3.Not(z3.fpIsInf(n32)), z3.Or(z3.Not(z3.fpIsZero(n32)), z3.fpIsZero(v.fp)))))
        else:
            import struct as _st

            try:
                _st.pack("<f", v)
                ok = v == v and v not in (float("inf"), float("-inf")) and (_st.unpack("<f", _st.pack("<f", v))[0] != 0 or v == 0)
            except OverflowError:
                ok = False
            env.assume(ok)
    else:
        v = shapes.sym_scalar(env, "v", kind)
    m = cls(v=v)
    data = bytes(m)
    env.observe("bytes", data)
    # proto3 implicit presence: the default (for floats: +0.0 only, bit pattern 0) is not emitted
    if kind in ("float", "double"):
        is_default = shapes.float_same(v, 0.0)
    elif kind == "bool":
        is_default = v == False  # noqa: E712
    else:
        is_default = v == 0
    if is_default:
        spec = b""
    else:
        spec = sw.field(number, kind, v)
    env.check("field==spec", data == spec)
    env.check("len", m.__len__() == len(data))
    m2 = cls().parse(data)
    back = m2.v
    if env.params.get("wide"):
        same = sw.scalar_payload("float", back) == sw.scalar_payload("float", v)  # the decoded value is the binary32 nearest to v
    elif kind in ("float", "double"):
        same = shapes.float_same(back, v, kind)
    else:
        same = back == v
    env.check("decode-inverse", same)
    if not env.sym:
        # the spec encoder itself is validated against the reference implementation (google.protobuf) at the witness
        ref = shapes.build_ref(cat)
        r = ref["S%d" % ni]()
        shapes.ref_set_scalar(r, "v", kind, v)
        from .. import sym as _sym

        spec_bytes = spec if isinstance(spec, bytes) and not isinstance(spec, _sym.SymBytes) else _sym.wire(spec)
        env.check("oracle:spec-bytes==reference-bytes", r.SerializeToString() == spec_bytes)
        r2 = ref["S%d" % ni].FromString(spec_bytes)
        want = v
        if env.params.get("wide"):
            import struct as _st

            want = _st.unpack("<f", _st.pack("<f", v))[0]
        env.check("oracle:reference-decodes-spec-bytes", shapes.ref_scalar_equal(getattr(r2, "v"), want, kind))


def h_float_positions(env):
    """float / double in optional, repeated (2 elements) and oneof position: bytes bit-identical to the spec encoder (and to the reference's)"""
    from .. import catalogue, shapes
    from ..spec import specmsg as sm

    kind, label = env.params["kind"], env.params["label"]
    cat = catalogue.get(["s1", kind, label])
    mod = shapes.build_bp(cat)
    if label == "repeated":
        val = {"v": [shapes.sym_scalar(env, "a", kind), shapes.sym_scalar(env, "b", kind)]}
    else:
        val = {"v": shapes.sym_scalar(env, "a", kind)}
    m = sm.to_bp(mod, cat, "M", val)
    data = bytes(m)
    env.observe("bytes", data)
    spec = sm.spec_encode(cat, "M", val)
    env.check("bytes==spec", data == spec)
    back = mod.M().parse(data)
    got = back.v if label == "repeated" else [back.v]
    want = val["v"] if label == "repeated" else [val["v"]]
    env.check("decode-bit-identical", len(got) == len(want) and all(shapes.float_same(x, y, kind) for x, y in zip(got, want)))
    if not env.sym:
        from .. import sym as _sym

        ref = shapes.build_ref(cat)
        r = sm.to_ref(ref, cat, "M", val)
        env.check("oracle:spec-bytes==reference-bytes", r.SerializeToString() == _sym.wire(spec))


def units(tier):
    u = [
        ("varint_roundtrip", h_varint_roundtrip, {}),
        ("varint_reject", h_varint_reject, {}),
    ]
    for n in range(0, 12):
        if tier == "quick" and n in (5, 6, 7, 8):
            continue
        u.append(("decode_arbitrary[n=%d]" % n, h_decode_arbitrary, {"n": n}))
    for kind in INT_KINDS + ["bool", "float", "double"]:
        u.append(("scalar_field[%s]" % kind, h_scalar_field, {"kind": kind}))
    u.append(("scalar_field[float, any double that rounds to a finite binary32]", h_scalar_field, {"kind": "float", "wide": True}))
    for kind in ("float", "double"):
        for label in ("optional", "repeated", "oneof"):
            u.append(("float_positions[%s %s]" % (kind, label), h_float_positions, {"kind": kind, "label": label}))
    return u


BOUNDS = {
    "quick": "ints: whole [-2**63, 2**64) and [-2**80, -2**63); decoder input: every byte string of length 0-4 and 9-11 at every offset; "
    "scalar kinds: 14 kinds x field numbers {1,15,16,2047,2048,2**29-1}, full value range",
    "thorough": "as quick plus decoder inputs of every length 0..11",
}
