"""C01 Binary round trip: parse(bytes(m)) reproduces m for every message value."""
from .. import catalogue, shapes, sym
from ..spec import specmsg as sm

WARMUP = True  # a concrete first use of the harness before each path (vf/explore.py: WarmEnv)
PROPERTY = "C01"


def bounds(tier, params):
    s2 = params["cat"][0] == "s2"
    if tier == "quick":
        if s2:
            return shapes.Bounds(rep=1, mapn=1, strlen=1, depth=2, wide_first_only=True)
        return shapes.Bounds(rep=2, mapn=2, strlen=2, depth=2, wide_first_only=True)
    if s2:
        return shapes.Bounds(rep=2, mapn=2, strlen=2, depth=2, wide_first_only=True)
    return shapes.Bounds(rep=3, mapn=2, strlen=3, depth=2, wide_first_only=True)


def h_roundtrip(env):
    import betterproto

    cat = catalogue.get(env.params["cat"])
    mod = shapes.build_bp(cat)
    val = shapes.gen_value(env, cat, "M", b=bounds(env.tier, env.params))
    m = sm.to_bp(mod, cat, "M", val)
    data = bytes(m)
    env.observe("bytes", data)
    m2 = mod.M().parse(data)
    env.check("decoded==original", m2 == m)
    data2 = bytes(m2)
    env.check("re-encode-identical", data2 == data)
    exp = sm.canon_of_value(cat, "M", val)
    c2 = sm.canon_of_bp(cat, "M", m2)
    env.check("decoded-denotes-value", sm.canon_equal(cat, "M", c2, exp), "groups=%r" % (c2["g"],))
    c1 = sm.canon_of_bp(cat, "M", m)
    env.check("constructed-denotes-value", sm.canon_equal(cat, "M", c1, exp))
    env.check("len", m.__len__() == len(data))
    if not env.sym:
        ref = shapes.build_ref(cat)
        r = ref["M"].FromString(bytes(data))
        env.check("witness:reference-reads-same-value", sm.canon_equal(cat, "M", sm.canon_of_ref(cat, "M", r), exp))


def h_two_messages(env):
    """two independent values of one class in one process: encode a, encode b, decode b, decode a.  Nothing computed for one message
    (memoised encodings, shared default objects, class-level tables) may leak into the other"""
    cat = catalogue.get(env.params["cat"])
    mod = shapes.build_bp(cat)
    b = shapes.Bounds(rep=1, mapn=1, strlen=1, depth=2)
    va = shapes.gen_value(env, cat, "M", pfx="a.", b=b)
    vb = shapes.gen_value(env, cat, "M", pfx="b.", b=b)
    ma = sm.to_bp(mod, cat, "M", va)
    da = bytes(ma)
    mb = sm.to_bp(mod, cat, "M", vb)
    db = bytes(mb)
    env.observe("bytes-a", da)
    env.observe("bytes-b", db)
    pb = mod.M().parse(db)
    pa = mod.M().parse(da)
    for tag, val, m, data, p in (("a", va, ma, da, pa), ("b", vb, mb, db, pb)):
        exp = sm.canon_of_value(cat, "M", val)
        env.check("%s:decoded==original" % tag, p == m)
        env.check("%s:decoded-denotes-value" % tag, sm.canon_equal(cat, "M", sm.canon_of_bp(cat, "M", p), exp))
        env.check("%s:re-encode-identical" % tag, bytes(p) == data)
        env.check("%s:encoding-stable" % tag, bytes(m) == data)
        try:
            got = sm.spec_decode(cat, "M", data)
            env.check("%s:spec-view==value" % tag, sm.canon_equal(cat, "M", got, exp))
        except Exception as e:
            if type(e).__name__ != "SpecDecodeError":
                raise
            env.check("%s:spec-decoder-accepts" % tag, False, str(e))
        if not env.sym:
            ref = shapes.build_ref(cat)
            r = ref["M"].FromString(bytes(data))
            env.check("witness:%s:reference-reads-same-value" % tag, sm.canon_equal(cat, "M", sm.canon_of_ref(cat, "M", r), exp))


TWO_KINDS = ["int32", "sint64", "bool", "enum", "fixed32", "float", "double", "string", "bytes", "message", "wrap:double", "wrap:bool"]


def two_units():
    u = []
    for kind in TWO_KINDS:
        for label in catalogue.LABELS:
            if kind.startswith("wrap:") and label in ("optional", "repeated"):
                continue
            u.append(("two-messages[s1 %s %s]" % (kind, label), h_two_messages, {"cat": ["s1", kind, label]}))
    for key, vk in (("string", "double"), ("bool", "sint64"), ("sint32", "message")):
        u.append(("two-messages[map %s->%s]" % (key, vk), h_two_messages, {"cat": ["s1map", key, vk]}))
    return u


def sym_setup(betterproto):
    # the Timestamp / Duration units below run on the datetime / timedelta models of C15
    from .c15 import sym_setup as time_setup

    return time_setup(betterproto)


def time_units():
    """Timestamp / Duration fields (datetime / timedelta on the Python side): the conversion kernels of C15 over every span and instant, the
    boundary constants, and the repeated / optional / oneof / map-value positions (binary codec and the reference at the witnesses)"""
    from . import c15

    return [("time-fields: duration[all spans]", c15.h_duration, {"binary_only": True}), ("time-fields: duration[boundaries]", c15.h_duration_boundaries, {"binary_only": True}),
            ("time-fields: timestamp[aware, any offset]", c15.h_timestamp, {"aware": True, "binary_only": True}), ("time-fields: timestamp[boundaries]", c15.h_timestamp_boundaries, {"binary_only": True}),
            ("time-fields: positions[repeated, optional, oneof, map value]", c15.h_positions, {"binary_only": True})]  # fmt: skip


def units(tier):
    u = []
    for kind in catalogue.S1_KINDS:
        for label in catalogue.LABELS:
            if kind.startswith("wrap:") and label in ("optional", "repeated"):
                continue
            u.append(("roundtrip[s1 %s %s]" % (kind, label), h_roundtrip, {"cat": ["s1", kind, label]}))
    for key in shapes.MAP_KEY_KINDS:
        for vk in catalogue.S1_MAP_VALUES:
            if tier == "quick" and not (vk == "int32" or key in ("int32", "string", "bool")):
                continue
            u.append(("roundtrip[map %s->%s]" % (key, vk), h_roundtrip, {"cat": ["s1map", key, vk]}))
    for name in catalogue.S2_NAMES:
        u.append(("roundtrip[s2 %s]" % name, h_roundtrip, {"cat": ["s2", name]}))
    from .c09 import h_long

    for kind in ("string", "bytes", "message", "packed", "map"):
        u.append(("long-payload[%s]" % kind, h_long, {"kind": kind}))
    u += two_units()
    u += time_units()
    return u


BUDGET = {"quick": 150, "thorough": 1200}
UNIT_PATH_CAP = {"quick": 600, "thorough": 40000}
BOUNDS = {
    "quick": "shape catalogue S1 (26 kinds x {singular, optional, repeated, oneof}) + maps + 10 S2 combination shapes; repeated<=2, map<=2, "
    "strings<=2 code points (whole Unicode), bytes<=2, nesting<=2; enum numbers in {0,1,-1,7,2**31-1,-2**31}",
    "thorough": "as quick with repeated<=3, strings/bytes<=3 and every map key kind x value kind",
}
OUTSIDE = "Timestamp/Duration fields (datetime arithmetic is C15), pydantic dataclasses, larger containers, shapes outside the catalogue"
