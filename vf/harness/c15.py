"""C15 Timestamp/Duration <-> datetime/timedelta conversion is exact and normalised."""
import datetime as _dt

from .. import shapes, sym
from ..shapes import F, Catalogue, Shape, STD_ENUM
from ..symtime import EPOCH_US, MAX_US, US_PER_SEC, SymDatetime, SymTimedelta

WARMUP = True  # a concrete first use of the harness before each path (vf/explore.py: WarmEnv)
PROPERTY = "C15"
DUR_MAX_US = 315576000000 * US_PER_SEC


def sym_setup(betterproto):
    from .. import symtime

    return symtime.install_time(betterproto)


def time_catalogue():
    return Catalogue("c15-time", [Shape("M", [F("d", 1, "message", msg="Duration"), F("t", 2, "message", msg="Timestamp")])], [STD_ENUM])


def positions_catalogue():
    m = Shape("P", [
        F("rt", 1, "message", "repeated", msg="Timestamp"), F("rd", 2, "message", "repeated", msg="Duration"),
        F("ot", 3, "message", "optional", msg="Timestamp"), F("od", 4, "message", "optional", msg="Duration"),
        F("gt", 5, "message", group="g", msg="Timestamp"), F("gd", 6, "message", group="g", msg="Duration"),
        F("md", 7, "message", "map", key="string", msg="Duration"), F("mt", 8, "message", "map", key="int32", msg="Timestamp")])  # fmt: skip
    return Catalogue("c15-positions", [m], [STD_ENUM])


def positions_witness(env, td, dt):
    """native only: the same span / instant in repeated, optional, oneof and map-value position, through both codecs and the reference"""
    import json

    from google.protobuf import json_format

    cat = positions_catalogue()
    mod = shapes.build_bp(cat)
    ref = shapes.build_ref(cat)["P"]
    utc = dt.astimezone(_dt.timezone.utc)
    cases = {
        "repeated": dict(rt=[dt, dt], rd=[td, -td]),
        "optional": dict(ot=dt, od=td),
        "oneof-timestamp": dict(gt=dt),
        "oneof-duration": dict(gd=td),
        "map-value": dict(md={"k": td, "": -td}, mt={0: dt, -7: dt}),
    }
    for pos, kw in cases.items():
        m = mod.P(**kw)
        data = bytes(m)
        back = mod.P().parse(data)
        env.check("witness:positions-binary-round-trip", back == m and bytes(back) == data and len(m) == len(data), pos)
        r = ref.FromString(data)
        got = dict(
            rt=[x.ToDatetime(tzinfo=_dt.timezone.utc) for x in r.rt], rd=[x.ToTimedelta() for x in r.rd],
            ot=r.ot.ToDatetime(tzinfo=_dt.timezone.utc) if r.HasField("ot") else None, od=r.od.ToTimedelta() if r.HasField("od") else None,
            g=r.WhichOneof("g"), md={k: v.ToTimedelta() for k, v in r.md.items()}, mt={k: v.ToDatetime(tzinfo=_dt.timezone.utc) for k, v in r.mt.items()},
        )  # fmt: skip
        want = dict(rt=[utc] * len(kw.get("rt", [])), rd=kw.get("rd", []), ot=utc if "ot" in kw else None, od=kw.get("od"),
                    g="gt" if "gt" in kw else "gd" if "gd" in kw else None, md=kw.get("md", {}), mt={k: utc for k in kw.get("mt", {})})  # fmt: skip
        if "gt" in kw:
            want_ok = got == want and r.gt.ToDatetime(tzinfo=_dt.timezone.utc) == utc
        elif "gd" in kw:
            want_ok = got == want and r.gd.ToTimedelta() == td
        else:
            want_ok = got == want
        env.check("witness:positions-reference-decodes-same", want_ok, pos)
        env.check("witness:positions-reference-bytes-decode", mod.P().parse(r.SerializeToString()) == m, pos)
        if env.params.get("binary_only"):
            continue  # registered under C01 / C02: the wire codec only
        label = "-map-value" if pos == "map-value" else ""
        try:
            d = m.to_dict()
            json.dumps(d)
            j = mod.P().from_dict(d)
            env.check("witness:positions-json-round-trip" + label, j == m, pos + " " + repr(d)[:300])
        except Exception as e:
            env.check("witness:positions-json-round-trip" + label, False, pos + " " + repr(e)[:300])
        try:
            rj = json_format.Parse(m.to_json(), ref())
            env.check("witness:positions-reference-reads-json" + label, rj.SerializeToString(deterministic=True) == r.SerializeToString(deterministic=True), pos + " " + m.to_json()[:300])
        except Exception as e:
            env.check("witness:positions-reference-reads-json" + label, False, pos + " " + repr(e)[:300])
        try:
            bj = mod.P().from_json(json_format.MessageToJson(r))
            env.check("witness:positions-reads-reference-json" + label, bj == m, pos + " " + json_format.MessageToJson(r)[:300].replace("\n", " "))
        except Exception as e:
            env.check("witness:positions-reads-reference-json" + label, False, pos + " " + repr(e)[:300])


def h_positions(env):
    """solver-chosen span and instant (LIA) + boundary constants, placed in every field position (witness level)"""
    n = max(len(BOUNDARY_TD), len(BOUNDARY_TS))
    k = env.choose("case", n + 1)  # boundary span i paired with boundary instant i (cycling); the last case is solver-chosen
    if k == n:
        us = env.zint("td_us", -DUR_MAX_US, DUR_MAX_US)
        off = env.zint("offset_min", -1439, 1439)
        lus = env.zint("local_us", 0, MAX_US)
    else:
        tdv = BOUNDARY_TD[k % len(BOUNDARY_TD)]
        tsv = BOUNDARY_TS[k % len(BOUNDARY_TS)]
        us = env.zint("td_us", tdv, tdv)
        lus, off = env.zint("local_us", tsv[0], tsv[0]), env.zint("offset_min", tsv[1], tsv[1])
    inst = lus - off * 60 * US_PER_SEC
    env.assume(sym.sym_and(inst >= 0, inst <= MAX_US))
    env.check("reached", True)
    if not env.sym:
        positions_witness(env, mk_timedelta(env, us), mk_datetime(env, lus, off))


def mk_timedelta(env, us):
    return SymTimedelta(us) if env.sym else _dt.timedelta(microseconds=us)


def mk_datetime(env, us, off_min):
    """aware datetime: us microseconds after 0001-01-01T00:00 on a clock off_min minutes east of UTC"""
    if env.sym:
        return SymDatetime(us, off_min)
    return _dt.datetime(1, 1, 1, tzinfo=_dt.timezone(_dt.timedelta(minutes=off_min))) + _dt.timedelta(microseconds=us)


def h_duration(env):
    """timedelta -> (seconds, nanos) == spec (truncation, equal signs) ; decode returns the identical value"""
    import betterproto

    lo, hi = env.params.get("range", (-DUR_MAX_US, DUR_MAX_US))
    us = env.zint("td_us", lo, hi)
    td = mk_timedelta(env, us)
    d = betterproto._Duration.from_timedelta(td)
    env.observe("seconds", d.seconds)
    env.observe("nanos", d.nanos)
    # spec: seconds = trunc(us / 1e6), nanos = remainder * 1000 with the sign of the value
    a = abs(us)
    s_abs, r_abs = a // US_PER_SEC, a % US_PER_SEC
    neg = us < 0
    want_s = -s_abs if neg else s_abs
    want_n = -(r_abs * 1000) if neg else r_abs * 1000
    env.check("seconds==spec", d.seconds == want_s)
    env.check("nanos==spec", d.nanos == want_n)
    env.check("nanos-in-range", sym.sym_and(d.nanos > -(10**9), d.nanos < 10**9))
    env.check("signs-agree", sym.sym_or(d.seconds == 0, d.nanos == 0, (d.seconds > 0) == (d.nanos > 0)))
    back = d.to_timedelta()
    env.check("decode-identical", back == td)
    if not env.sym:
        # through a message field (the wire codec of the (seconds, nanos) message is C01/C16's; here at the witness)
        cat = time_catalogue()
        mod = shapes.build_bp(cat)
        m = mod.M(d=td)
        data = bytes(m)
        m2 = mod.M().parse(data)
        env.check("witness:message-round-trip", m2.d == td and bytes(m2) == data and len(m) == len(data))
        from google.protobuf import duration_pb2

        r = duration_pb2.Duration()
        r.FromTimedelta(td)
        env.check("oracle:reference-seconds-nanos", (r.seconds, r.nanos) == (want_s, want_n))
        ref = shapes.build_ref(cat)
        rm = ref["M"].FromString(data)
        env.check("witness:reference-decodes-same-span", rm.d.ToTimedelta() == td)
        if env.params.get("binary_only"):
            return  # registered under C01 / C02: the wire codec only
        import re

        text = m.to_dict().get("d", "0s")
        env.check("witness:duration-json-is-canonical-form", re.fullmatch(r"-?[0-9]+(\.[0-9]{3}|\.[0-9]{6}|\.[0-9]{9})?s", text) is not None, text)
        r2 = duration_pb2.Duration()
        try:
            r2.FromJsonString(text)
            env.check("witness:reference-reads-duration-json", (r2.seconds, r2.nanos) == (want_s, want_n), text)
        except Exception as e:
            env.check("witness:reference-reads-duration-json", False, "%s: %r" % (text, e))
        back = mod.M().from_dict({"d": r.ToJsonString()})
        env.check("witness:betterproto-reads-reference-duration-json", back.d == td, r.ToJsonString())
        back = mod.M().from_dict(m.to_dict())
        env.check("witness:duration-json-round-trip", back.d == td, repr(m.to_dict()))


def h_timestamp(env):
    """aware datetime in any fixed offset -> (seconds, nanos) == spec (floor, nanos in [0,1e9)) ; decode denotes the same instant"""
    import betterproto

    if env.params.get("fixed"):
        us0, off0 = env.params["fixed"]
        off, us = env.zint("offset_min", off0, off0), env.zint("local_us", us0, us0)
    else:
        off = env.zint("offset_min", -1439, 1439) if env.params.get("aware", True) else 0
        us = env.zint("local_us", 0, MAX_US)
    instant = us - off * 60 * US_PER_SEC - EPOCH_US  # microseconds since the Unix epoch
    lo, hi = -EPOCH_US, MAX_US - EPOCH_US
    env.assume(sym.sym_and(instant >= lo, instant <= hi))  # instants inside the protobuf-valid range 0001..9999
    dt = mk_datetime(env, us, off)
    ts = betterproto._Timestamp.from_datetime(dt)
    env.observe("seconds", ts.seconds)
    env.observe("nanos", ts.nanos)
    want_s, want_us = instant // US_PER_SEC, instant % US_PER_SEC
    env.check("seconds==spec", ts.seconds == want_s)
    env.check("nanos==spec", ts.nanos == want_us * 1000)
    env.check("nanos-in-range", sym.sym_and(ts.nanos >= 0, ts.nanos < 10**9))
    back = ts.to_datetime()
    env.check("decode-same-instant", back == dt)
    env.check("decode-is-utc", (back.utcoffset() == _dt.timedelta(0)))
    if not env.sym:
        cat = time_catalogue()
        mod = shapes.build_bp(cat)
        m = mod.M(t=dt)
        data = bytes(m)
        m2 = mod.M().parse(data)
        env.check("witness:message-round-trip", m2.t == dt and bytes(m2) == data and len(m) == len(data))
        from google.protobuf import timestamp_pb2

        r = timestamp_pb2.Timestamp()
        r.FromDatetime(dt)
        env.check("oracle:reference-seconds-nanos", (r.seconds, r.nanos) == (want_s, want_us * 1000))
        ref = shapes.build_ref(cat)
        rm = ref["M"].FromString(data)
        env.check("witness:reference-decodes-same-instant", rm.t.ToDatetime(tzinfo=_dt.timezone.utc) == dt)
        if env.params.get("binary_only"):
            return  # registered under C01 / C02: the wire codec only
        text = m.to_dict().get("t", "1970-01-01T00:00:00Z")
        r2 = timestamp_pb2.Timestamp()
        try:
            r2.FromJsonString(text)
            env.check("witness:reference-reads-timestamp-json", (r2.seconds, r2.nanos) == (want_s, want_us * 1000), text)
        except Exception as e:
            env.check("witness:reference-reads-timestamp-json", False, "%s: %r" % (text, e))
        env.check("witness:timestamp-json==reference", text == r.ToJsonString(), "%r vs %r" % (text, r.ToJsonString()))
        back = mod.M().from_dict({"t": r.ToJsonString()})
        env.check("witness:betterproto-reads-reference-timestamp-json", back.t == dt, r.ToJsonString())
        back = mod.M().from_dict(m.to_dict())
        env.check("witness:timestamp-json-round-trip", back.t == dt, repr(m.to_dict()))
        # RFC 3339 text that carries the numeric offset of the local clock instead of "Z": the same instant
        local_text = dt.isoformat()
        r3 = timestamp_pb2.Timestamp()
        try:
            r3.FromJsonString(local_text)
            accepted = (r3.seconds, r3.nanos) == (want_s, want_us * 1000)
        except Exception:
            accepted = False  # outside what the reference reads: no verdict
        if accepted:
            try:
                back = mod.M().from_dict({"t": local_text})
                env.check("witness:betterproto-reads-rfc3339-with-numeric-offset", back.t == dt and bytes(back) == data, "%s -> %r" % (local_text, back.t))
            except Exception as e:
                env.check("witness:betterproto-reads-rfc3339-with-numeric-offset", False, "%s: %r" % (local_text, e))


def _text(env, pieces):
    """spec-side text: structured in the symbolic run, a plain string in the native run"""
    if env.sym:
        from ..symstr import SymText

        return SymText(pieces)
    out = []
    for p in pieces:
        if isinstance(p, str):
            out.append(p)
        elif p[0] == "num":
            out.append(str(p[1]).zfill(p[2]) if p[2] else str(p[1]))
        else:
            out.append((_dt.datetime(1, 1, 1) + _dt.timedelta(microseconds=p[1])).isoformat())
    return "".join(out)


def h_timestamp_json(env):
    """timestamp_to_json on every aware datetime: RFC 3339 UTC with 0, 3 or 6 fractional digits (isoformat of the whole-second part is an
    opaque injective function; the choice of the fraction form and its digits are decided by the solver)"""
    import betterproto

    off = env.zint("offset_min", -1439, 1439)
    us = env.zint("local_us", 0, MAX_US)
    utc = us - off * 60 * US_PER_SEC
    env.assume(sym.sym_and(utc >= 0, utc <= MAX_US))
    dt = mk_datetime(env, us, off)
    got = betterproto._Timestamp.timestamp_to_json(dt)
    env.observe("json", got)
    frac = utc % US_PER_SEC
    whole = utc - frac
    if frac == 0:
        want = _text(env, [("iso", whole), "Z"])
    elif frac % 1000 == 0:
        want = _text(env, [("iso", whole), ".", ("num", frac // 1000, 3), "Z"])
    else:
        want = _text(env, [("iso", whole), ".", ("num", frac, 6), "Z"])
    r = got == want
    env.check("timestamp-json==rfc3339-utc", False if r is NotImplemented else r, "" if env.sym else "%r vs %r" % (got, want))
    if not env.sym:
        from google.protobuf import timestamp_pb2

        ref = timestamp_pb2.Timestamp()
        ref.FromDatetime(dt)
        env.check("oracle:spec-text==reference-text", ref.ToJsonString() == want, "%r vs %r" % (ref.ToJsonString(), want))


def h_duration_json(env):
    """delta_to_json on every timedelta: sign, whole seconds, 3 or 6 fractional digits, 's'"""
    import betterproto

    us = env.zint("td_us", -DUR_MAX_US, DUR_MAX_US)
    td = mk_timedelta(env, us)
    got = betterproto._Duration.delta_to_json(td)
    env.observe("json", got)
    a = abs(us)
    sign = "-" if us < 0 else ""
    sec, frac = a // US_PER_SEC, a % US_PER_SEC
    if frac % 1000 == 0:
        want = _text(env, [sign, ("num", sec, 0), ".", ("num", frac // 1000, 3), "s"])
    else:
        want = _text(env, [sign, ("num", sec, 0), ".", ("num", frac, 6), "s"])
    r = got == want
    env.check("duration-json==decimal-seconds", False if r is NotImplemented else r, "" if env.sym else "%r vs %r" % (got, want))
    if not env.sym:
        from google.protobuf import duration_pb2

        ref = duration_pb2.Duration()
        ref.FromJsonString(want)
        env.check("oracle:reference-reads-spec-text", ref.ToTimedelta() == td, want)


BOUNDARY_TD = [0, 1, -1, 999999, 10**6, -(10**6), -1500000, 1500000, 2**53, 2**53 + 1, -(2**53) - 1, 69089390592999996, DUR_MAX_US, -DUR_MAX_US, DUR_MAX_US - 1, 1000, 123000, -123456,
               7, 50, 5000, -5000, 90000, 1001000, 10**6 + 1, -999999, 3600 * 10**6, 86400 * 10**6 + 10,
               # one representative per decimal digit class of the microsecond part (10**k, 9*10**k, mixed)
               10, 100, 10**4, 10**5, 9, 90, 900, 9000, 900000, 123400, 120000, 100100, 999900, 999990, -100, -123400, 2 * 10**6 + 100]


def h_duration_boundaries(env):
    """the same harness on boundary constants (so that the witness-level JSON checks see them)"""
    i = env.choose("i", len(BOUNDARY_TD))
    env.params = dict(env.params, range=(BOUNDARY_TD[i], BOUNDARY_TD[i]))
    h_duration(env)


BOUNDARY_TS = [  # (local clock us since 0001-01-01, offset minutes)
    (EPOCH_US, 0), (EPOCH_US - 1, 0), (EPOCH_US + 1, 0), (EPOCH_US - 500000, 0), (EPOCH_US + 999999, 0), (EPOCH_US - 1000000, 0),
    (0, 0), (MAX_US, 0), (EPOCH_US + 1500000, 90), (EPOCH_US, -720), (EPOCH_US + 2**53, 0), (14 * 60 * 60 * US_PER_SEC, 14 * 60), (MAX_US - 1, -1439),
    (EPOCH_US + 1577836800 * US_PER_SEC + 123000, 330), (EPOCH_US + 1577836800 * US_PER_SEC + 123456, -210),
    (EPOCH_US + 7, 0), (EPOCH_US + 50, 0), (EPOCH_US + 5000, 0), (EPOCH_US + 90000, 0), (EPOCH_US + 1001000, 0), (EPOCH_US - 5000, 0), (EPOCH_US - 999950, 0),
    (EPOCH_US + 951782400 * US_PER_SEC, 0), (EPOCH_US + 4107542400 * US_PER_SEC + 1, 60),
] + [(EPOCH_US + 1577836800 * US_PER_SEC + f, 0) for f in (10, 100, 1000, 10**4, 10**5, 9, 90, 900, 9000, 900000, 123400, 120000, 100100, 999900, 999990)] + [
    (EPOCH_US - 2 * US_PER_SEC + 100, 0), (EPOCH_US - 2 * US_PER_SEC + 123400, 120),
] + [
    # every width of the year: 0009/0010, 0099/0100, 0999/1000 (text formatting of the year is C code)
    ((_dt.datetime(y, mo, d, h, mi, sec, us) - _dt.datetime(1, 1, 1)) // _dt.timedelta(microseconds=1), off)
    for (y, mo, d, h, mi, sec, us, off) in ((9, 12, 31, 23, 59, 59, 999999, 0), (10, 1, 1, 0, 0, 0, 0, 0), (99, 12, 31, 23, 59, 59, 0, 0), (100, 1, 1, 0, 0, 0, 1000, 0),
                                            (999, 12, 31, 23, 59, 59, 0, 0), (1000, 1, 1, 0, 0, 0, 0, 0), (1000, 1, 1, 0, 30, 0, 0, 60))
]  # fmt: skip


def h_timestamp_boundaries(env):
    i = env.choose("i", len(BOUNDARY_TS))
    us, off = BOUNDARY_TS[i]
    env.params = dict(env.params, fixed=(us, off))
    h_timestamp(env)


def units(tier):
    return [
        ("duration[all spans]", h_duration, {}),
        ("duration[|span| < 2s]", h_duration, {"range": (-2 * US_PER_SEC, 2 * US_PER_SEC)}),
        ("duration[boundaries]", h_duration_boundaries, {}),
        ("timestamp[aware, any offset]", h_timestamp, {"aware": True}),
        ("timestamp[utc]", h_timestamp, {"aware": False}),
        ("timestamp[boundaries]", h_timestamp_boundaries, {}),
        ("positions[repeated, optional, oneof, map value]", h_positions, {}),
        ("timestamp-json[all instants, any offset]", h_timestamp_json, {}),
        ("duration-json[all spans]", h_duration_json, {}),
    ]


BUDGET = {"quick": 120, "thorough": 900}
BOUNDS = {
    "quick": "every timedelta in +-315,576,000,000 s at 1 us resolution (one symbolic 96-bit integer); every aware datetime whose local clock reads 0001-01-01 .. 9999-12-31T23:59:59.999999 "
    "with every fixed UTC offset of -1439..1439 minutes and whose instant lies in the protobuf range; conversion kernels and a message with one Duration and one Timestamp field",
    "thorough": "same",
}
OUTSIDE = ("the JSON strings (isoformat, dateutil.isoparse, float repr are C code): compared with the reference at the path witnesses and at 18 boundary spans only; "
           "naive datetimes (rejected by from_datetime), non-fixed tzinfo objects")
FILES = ["betterproto/__init__.py"]
