"""C20 Enums are open, canonical and immutable."""
import copy as _copy

from .. import catalogue, shapes, sym
from ..shapes import F, Catalogue, EnumDef, Shape, Bounds
from ..spec import specjson as sj, specmsg as sm

WARMUP = True  # a concrete first use of the harness before each path (vf/explore.py: WarmEnv)
PROPERTY = "C20"
FILES = ["betterproto/enum.py", "betterproto/__init__.py"]
NUMBERS = [0, 1, -1, 5, (1 << 31) - 1, -(1 << 31)]
NAMES = ["ZERO", "A", "B", "C"]
# member names as the plugin spells them for unusual proto names: digit-leading names get a leading underscore, keywords a trailing one
ODD_NAMES = ["ZERO", "_4K", "lower_case", "None_"]


def make_enum(numbers, NAMES=NAMES):
    import betterproto
    from betterproto.enum import EnumType

    ns = {"__module__": __name__, "__qualname__": "E"}
    for n, v in zip(NAMES, numbers):
        ns[n] = v
    return EnumType("E", (betterproto.Enum,), ns)


def h_api(env):
    """definitions with 1..4 members over numbers incl. 0, negatives, gaps and aliases: lookup, identity, immutability"""
    k = env.params["members"]
    NAMES = ODD_NAMES if env.params.get("names") == "odd" else globals()["NAMES"]
    numbers = [0] + [NUMBERS[env.choose("n%d" % i, len(NUMBERS))] for i in range(1, k)]
    E = make_enum(numbers, NAMES)
    canonical = {}
    for name, v in zip(NAMES, numbers):
        canonical.setdefault(v, name)
    for name, v in zip(NAMES, numbers):
        m = E[name]
        env.check("by-name-then-number-is-same-object", E(v) is m)
        env.check("try_value-returns-canonical-member", E.try_value(v) is m)
        env.check("from_string-returns-canonical-member", E.from_string(name) is m)
        env.check("aliases-share-the-canonical-object", m is E[canonical[v]])
        env.check("declared-number", m.value == v and int(m) == v and m == v)
        env.check("canonical-name", m.name == canonical[v])
        env.check("copy-keeps-identity", _copy.copy(m) is m and _copy.deepcopy(m) is m)
        args, kw = m.__getnewargs_ex__()
        env.check("pickle-args-keep-name-and-number", kw == {"name": canonical[v], "value": v} and args == ())
        env.check("member-in-class", m in E)
        if not env.sym:
            import pickle

            # pickling needs an importable class: exercised on a module-level enum below
        for attr, val in (("value", 3), ("name", "X")):
            try:
                setattr(m, attr, val)
                env.check("member-immutable", False, "setattr %s" % attr)
            except AttributeError:
                env.check("member-immutable", True)
        try:
            del m.value
            env.check("member-immutable", False, "delattr")
        except AttributeError:
            env.check("member-immutable", True)
    env.check("iteration-yields-declared-names", [m for m in E] == [E[n] for n in NAMES[:k]])
    env.check("len", len(E) == k)
    env.check("members-mapping", list(E.__members__) == NAMES[:k])
    for attempt in ("set", "del", "new"):
        try:
            if attempt == "set":
                E.ZERO = 9
            elif attempt == "del":
                del E.ZERO
            else:
                E.NEW = 4
            env.check("class-immutable", False, attempt)
        except AttributeError:
            env.check("class-immutable", True)
    # an undefined number
    undefined = [n for n in NUMBERS + [7, -7] if n not in numbers]
    u = undefined[env.choose("undefined", len(undefined))]
    x = E.try_value(u)
    env.check("undefined-accepted-and-equal-to-int", x == u and int(x) == u and x.value == u and x.name is None and isinstance(x, E))
    try:
        E(u)
        env.check("call-rejects-undefined", False)
    except ValueError:
        env.check("call-rejects-undefined", True)
    # the same look-ups with an *instance* as the argument: the stand-in of the undefined number, and a pickled copy of a member
    try:
        E(x)
        env.check("call-rejects-undefined-stand-in", False)
    except ValueError:
        env.check("call-rejects-undefined-stand-in", True)
    for name, v in zip(NAMES, numbers):
        args, kw = E[name].__getnewargs_ex__()
        c = E.__new__(E, *args, **kw)  # what unpickling builds: a copy that is not the canonical object
        env.check("lookup-by-a-copy-returns-the-canonical-member", E(c) is E[name])
    try:
        E.from_string("NOPE")
        env.check("from_string-rejects-unknown-name", False)
    except ValueError:
        env.check("from_string-rejects-unknown-name", True)
    env.observe("numbers", numbers)


def positions_catalogue():
    # "real", "numerator", "try_value": legal value names that are also attributes of int / of betterproto.Enum (number 2, 3, 4 are not among the candidates)
    e = EnumDef("E", [("ZERO", 0), ("ONE", 1), ("NEG", -1), ("ALIAS", 1), ("real", 2), ("numerator", 3), ("try_value", 4)])
    m = Shape("M", [
        F("s", 1, "enum", enum="E"), F("r", 2, "enum", "repeated", enum="E"), F("m", 3, "enum", "map", key="int32", enum="E"),
        F("o", 4, "enum", group="g", enum="E"), F("x", 5, "int32", group="g"), F("p", 6, "enum", "optional", enum="E")])  # fmt: skip
    return Catalogue("c20-positions", [m], [e])


def h_positions(env):
    """a defined or undefined int32 number in singular / repeated / map-value / oneof / optional position: binary and JSON round trips keep it"""
    import betterproto

    cat = positions_catalogue()
    mod = shapes.build_bp(cat)
    cands = [0, 1, -1, 7, -7, (1 << 31) - 1, -(1 << 31)]
    pos = env.params["position"]
    v = cands[env.choose("v", len(cands))]
    if pos == "s":
        val = {"s": v}
    elif pos == "r":
        w = cands[env.choose("w", len(cands))]
        val = {"r": [v, w]}
    elif pos == "m":
        val = {"m": [(env.int("key", -64, 63), v)]}
    elif pos == "o":
        val = {"o": v}
    else:
        val = {"p": v}
    m = sm.to_bp(mod, cat, "M", val)
    exp = sm.canon_of_value(cat, "M", val)
    data = bytes(m)
    env.observe("bytes", data)
    back = mod.M().parse(data)
    env.check("binary-round-trip-keeps-number", sm.canon_equal(cat, "M", sm.canon_of_bp(cat, "M", back), exp))
    env.check("binary-round-trip-equal", back == m)
    defined = {0: "ZERO", 1: "ONE", -1: "NEG"}
    x = getattr(back, pos)
    x = x[0] if pos == "r" else (list(x.values())[0] if pos == "m" else x)
    if v in defined:
        env.check("decoded-member-is-canonical-object", x is getattr(mod.E, defined[v]))
    else:
        env.check("decoded-undefined-is-open-member", isinstance(x, mod.E) and x.name is None and x == v)
    try:
        d = m.to_dict()
        j = mod.M().from_dict(d)
        env.check("json-round-trip-keeps-number", sm.canon_equal(cat, "M", sm.canon_of_bp(cat, "M", j), exp), repr(d))
        env.check("json-round-trip-same-bytes", bytes(j) == data)
    except Exception as e:
        if type(e).__name__ in ("Unsupported", "EngineLimit"):
            raise
        env.check("json-round-trip-keeps-number", False, repr(e))
    if not env.sym:
        import pickle

        for member in list(mod.E) + [mod.E.try_value(v)]:
            for proto in (2, pickle.HIGHEST_PROTOCOL):
                p = pickle.loads(pickle.dumps(member, proto))
                env.check("witness:pickle-keeps-name-and-number", isinstance(p, mod.E) and p.name == member.name and p.value == member.value and p == member, repr(member))
        ref = shapes.build_ref(cat)
        r = ref["M"].FromString(bytes(data))
        env.check("witness:reference-reads-same-numbers", sm.canon_equal(cat, "M", sm.canon_of_ref(cat, "M", r), exp))


def units(tier):
    u = []
    for k in (1, 2, 3, 4):
        u.append(("api[%d members]" % k, h_api, {"members": k}))
    for k in (2, 4):
        u.append(("api[%d members, names _4K / lower_case / None_]" % k, h_api, {"members": k, "names": "odd"}))
    for pos in ("s", "r", "m", "o", "p"):
        u.append(("positions[%s]" % {"s": "singular", "r": "repeated", "m": "map value", "o": "oneof", "p": "optional"}[pos], h_positions, {"position": pos}))
    return u


BUDGET = {"quick": 120, "thorough": 600}
UNIT_PATH_CAP = {"quick": 4000, "thorough": 40000}
BOUNDS = {
    "quick": "enum definitions with 1..4 members, first number 0, the others chosen by the environment from {0, 1, -1, 5, 2**31-1, -2**31} (so gaps, negatives and aliases "
    "occur in every combination); undefined numbers from the same set plus +-7; field values from {0, 1, -1, 7, -7, 2**31-1, -2**31} in singular / repeated / map-value / "
    "oneof / optional position; pickling (protocol 2 and highest) of every member of an enum that also has members named real / numerator / try_value, at every witness. Enum members are C-level int objects, so numbers are environment choices (concrete per path), not solver variables; the all-integers "
    "claim for the enum wire codec is C16's (enum fields use the int32 varint codec).",
    "thorough": "same",
}
OUTSIDE = "numbers outside the candidate sets (C16 covers the codec for all int32), pickling of enums defined inside functions"
