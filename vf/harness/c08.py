"""C08 Unknown fields survive decode/encode; schema evolution is lossless."""
from .. import catalogue, shapes, sym
from ..shapes import Catalogue, Shape
from ..spec import specmsg as sm, specwire as sw
from .c01 import bounds
from .c09 import gen_unknown

WARMUP = True  # a concrete first use of the harness before each path (vf/explore.py: WarmEnv)
PROPERTY = "C08"


def with_older(cat, mask):
    """catalogue + shape Old = M without the fields selected by the bit mask"""
    m = cat.shapes["M"]
    keep = [f for i, f in enumerate(m.fields) if not (mask >> i) & 1]
    shapes_ = list(cat.shapes.values()) + [Shape("Old", keep)]
    return Catalogue("%s-old%d" % (cat.name, mask), shapes_, list(cat.enums.values()))


def with_older_inner(cat, inner, mask):
    """catalogue + a copy of every shape under the name <name>Old in which the shape `inner` has lost the fields selected by the bit mask
    (the older schema of a *nested* type: the unknown fields then sit inside sub-messages, list elements, map values and oneof members)"""
    from ..shapes import F

    out = list(cat.shapes.values())
    for sh in cat.shapes.values():
        fields = []
        for i, f in enumerate(sh.fields):
            if sh.name == inner and (mask >> i) & 1:
                continue
            fields.append(F(f.name, f.number, f.kind, f.label, group=f.group, msg=(f.msg + "Old") if f.msg else None, enum=f.enum, key=f.key, wraps=f.wraps))
            for extra in ("narrow",):
                if hasattr(f, extra):
                    setattr(fields[-1], extra, getattr(f, extra))
        out.append(Shape(sh.name + "Old", fields))
    return Catalogue("%s-inner-%s-old%d" % (cat.name, inner, mask), out, list(cat.enums.values()))


def h_evolution_inner(env):
    """newer -> bytes -> reader/writer whose schema of a nested type is older -> bytes -> newer reader: unchanged"""
    base = catalogue.get(env.params["cat"])
    cat = with_older_inner(base, env.params["inner"], env.params["mask"])
    mod = shapes.build_bp(cat)
    val = shapes.gen_value(env, cat, "M", b=bounds(env.tier, env.params))
    newer = sm.to_bp(mod, cat, "M", val)
    data = bytes(newer)
    env.observe("bytes", data)
    old = mod.MOld().parse(data)
    data2 = bytes(old)
    env.observe("re-emitted", data2)
    env.check("older-len", old.__len__() == len(data2))
    back = mod.M().parse(data2)
    exp = sm.canon_of_value(cat, "M", val)
    env.check("newer-reads-back-equal", back == newer)
    env.check("newer-reads-back-value", sm.canon_equal(cat, "M", sm.canon_of_bp(cat, "M", back), exp))
    env.check("newer-re-encodes-to-the-original-length", back.__len__() == len(data))
    # a copy of the older reader's message relays the same bytes
    import copy

    env.check("deep-copy-of-the-older-message-relays-the-same-bytes", bytes(copy.deepcopy(old)) == data2)


def h_evolution(env):
    """newer -> bytes -> older reader/writer -> bytes -> newer reader: unchanged"""
    base = catalogue.get(env.params["cat"])
    cat = with_older(base, env.params["mask"])
    mod = shapes.build_bp(cat)
    val = shapes.gen_value(env, cat, "M", b=bounds(env.tier, env.params))
    newer = sm.to_bp(mod, cat, "M", val)
    data = bytes(newer)
    env.observe("bytes", data)
    old = mod.Old().parse(data)
    exp = sm.canon_of_value(cat, "M", val)
    got_old = sm.canon_of_bp(cat, "Old", old)
    # shared fields decode to the same values
    shared = {"f": {k: v for k, v in exp["f"].items() if k in cat.shapes["Old"].by_name}, "g": {}, "u": b""}
    for g in cat.shapes["Old"].groups():
        shared["g"][g] = exp["g"][g] if exp["g"][g] in cat.shapes["Old"].by_name else ""
    env.check("shared-fields-equal", sm.canon_equal(cat, "Old", got_old, shared, unknown=False), "groups=%r" % (got_old["g"],))
    data2 = bytes(old)
    env.observe("re-emitted", data2)
    env.check("older-len", old.__len__() == len(data2))
    back = mod.M().parse(data2)
    env.check("newer-reads-back-equal", back == newer)
    env.check("newer-reads-back-value", sm.canon_equal(cat, "M", sm.canon_of_bp(cat, "M", back), exp))
    try:
        view = sm.spec_decode(cat, "M", data2)
        env.check("spec-view-of-re-emitted==value", sm.canon_equal(cat, "M", view, exp))
    except sw.SpecDecodeError as e:
        env.check("spec-view-of-re-emitted==value", False, str(e))
    if not env.sym:
        ref = shapes.build_ref(cat)
        r = ref["M"].FromString(bytes(data2))
        env.check("witness:reference-view-of-re-emitted==value", sm.canon_equal(cat, "M", sm.canon_of_ref(cat, "M", r), exp))


def h_unknown_runs(env):
    """well-formed unknown fields at any position: known fields undisturbed, raw bytes re-emitted in arrival order"""
    cat = catalogue.get(env.params["cat"])
    mod = shapes.build_bp(cat)
    s = cat.shapes["M"]
    val = shapes.gen_value(env, cat, "M", b=bounds(env.tier, env.params))
    known = [f.number for f in s.fields]
    n = env.params.get("n", 2)
    inj = []
    for i in range(n):
        pos = env.choose("pos%d" % i, len(s.fields) + 1)
        inj.append((pos, gen_unknown(env, "unk%d" % i, known, padded=(i == 0))))
    k = sm.Knobs(inject=inj)
    wire = sym.wire(sm.spec_encode(cat, "M", val, k))
    env.observe("wire", wire)
    m = mod.M().parse(wire)
    exp = sm.canon_of_value(cat, "M", val)
    got = sm.canon_of_bp(cat, "M", m)
    env.check("known-fields-undisturbed", sm.canon_equal(cat, "M", got, exp, unknown=False), "groups=%r" % (got["g"],))
    arrival = sw.cat(*[raw for _, raw in sorted(inj, key=lambda t: t[0])])
    out = bytes(m)
    env.observe("out", out)
    try:
        view = sm.spec_decode(cat, "M", out)
    except sw.SpecDecodeError as e:
        env.check("re-emitted-well-formed", False, str(e))
        return
    env.check("re-emitted-known==value", sm.canon_equal(cat, "M", view, exp, unknown=False))
    env.check("re-emitted-unknown-bytes-identical-in-arrival-order", sym.SymBytes.lift(view["u"]) == arrival)
    env.check("len", m.__len__() == len(out))
    m2 = mod.M().parse(out)
    env.check("stable", bytes(m2) == out)
    import copy

    dup = copy.deepcopy(m)
    later = gen_unknown(env, "later", known)
    dup.parse(sym.wire(later))
    env.check("unknown-fields-not-shared-with-a-deep-copy", bytes(m) == out)
    # decoding into an instance that already holds unknown fields adds to them (parse(a) then parse(b) keeps what parse(a + b) keeps)
    env.check("unknown-fields-accumulate-across-decodes-into-one-instance", bytes(dup) == out + later)


def h_relay(env):
    """a delimited stream of newer messages relayed by an older-schema reader/writer (load + dump with SIZE_DELIMITED), then read with the newer schema"""
    import betterproto

    from .c10 import OLDER, _messages, stream_catalogue

    cat = stream_catalogue()
    mod = shapes.build_bp(cat)
    types = env.params["types"]
    vals, msgs = _messages(env, cat, mod, types, False)
    src = betterproto.BytesIO()
    for m in msgs:
        m.dump(src, betterproto.SIZE_DELIMITED)
    rd = betterproto.BytesIO(src.getvalue())
    out = betterproto.BytesIO()
    for t in types:
        o = getattr(mod, OLDER[t])().load(rd, betterproto.SIZE_DELIMITED)
        o.dump(out, betterproto.SIZE_DELIMITED)
    env.check("relay-consumed-everything", len(rd.read()) == 0)
    env.observe("relayed", out.getvalue())
    back = betterproto.BytesIO(out.getvalue())
    for i, t in enumerate(types):
        n = getattr(mod, t)().load(back, betterproto.SIZE_DELIMITED)
        env.check("relayed-message-unchanged", n == msgs[i], "message %d" % i)
    # the same with an explicit size instead of the delimiter
    data = bytes(msgs[0])
    o = getattr(mod, OLDER[types[0]])().load(betterproto.BytesIO(data + b"\x08\x01"), len(data))
    env.check("explicit-size-load-stops-at-size", getattr(mod, types[0])().parse(bytes(o)) == msgs[0])


def units(tier):
    u = []
    s2 = ["mixed", "oneofs", "nested", "optionals", "packed", "mapmsg", "repmsg", "wrappers"]
    for name in s2:
        n = len(catalogue.get(["s2", name]).shapes["M"].fields)
        masks = {(1 << n) - 1, 0}
        for i in range(n):
            masks.add(1 << i)
        masks.add(0b0101010101 & ((1 << n) - 1))
        masks.add(0b1010101010 & ((1 << n) - 1))
        if tier == "thorough" and n <= 7:
            masks = set(range(1 << n))
        for mask in sorted(masks):
            u.append(("evolution[s2 %s drop=%s]" % (name, bin(mask)[2:].zfill(n)), h_evolution, {"cat": ["s2", name], "mask": mask}))
    for kind in ("int32", "string", "message", "bytes", "double", "enum"):
        for label in catalogue.LABELS:
            u.append(("evolution[s1 %s %s drop=1]" % (kind, label), h_evolution, {"cat": ["s1", kind, label], "mask": 1}))
    for name, inner in (("nested", "Leaf"), ("nested", "Mid"), ("repmsg", "Leaf"), ("mapmsg", "Leaf"), ("oneofs", "Leaf"), ("optionals", "Leaf"), ("recursive", "M")):
        n = len(catalogue.get(["s2", name]).shapes[inner].fields)
        for mask in sorted({(1 << n) - 1, 1, 1 << (n - 1)}):
            u.append(("evolution-of-nested-type[s2 %s: %s drop=%s]" % (name, inner, bin(mask)[2:].zfill(n)), h_evolution_inner, {"cat": ["s2", name], "inner": inner, "mask": mask}))
    for name in ("mixed", "oneofs", "nested", "packed"):
        u.append(("unknown-runs[s2 %s x2]" % name, h_unknown_runs, {"cat": ["s2", name], "n": 2}))
    for kind, label in (("int32", "singular"), ("string", "repeated"), ("message", "oneof"), ("sint64", "repeated")):
        u.append(("unknown-runs[s1 %s %s x2]" % (kind, label), h_unknown_runs, {"cat": ["s1", kind, label], "n": 2}))
    for types in (["A", "B"], ["B", "A"], ["A", "A"], ["B", "Empty"]):
        u.append(("relay[%s]" % ",".join(types), h_relay, {"types": types}))
    return u


BUDGET = {"quick": 200, "thorough": 1200}
UNIT_PATH_CAP = {"quick": 300, "thorough": 20000}
BOUNDS = {
    "quick": "(newer, older) pairs: 8 S2 shapes x {drop nothing, drop all, drop each single field, two alternating subsets} + 24 S1 shapes with their field dropped; "
    "values within the C01 sizes; unknown runs: two unknown fields (symbolic number 41..2**29-1 not in the schema, wire types 0/1/2/5, symbolic payload; the first one possibly with padded, non-minimal tag / value / length varints) "
    "injected at every pair of positions among the known fields; 300 paths per unit",
    "thorough": "every subset of deleted fields for shapes with <= 7 fields; 20000 paths per unit",
}
OUTSIDE = "older schemas that also change nested types; groups; more than two unknown fields per message"
