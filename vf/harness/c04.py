"""C04 JSON / dict round trip: from_dict(to_dict(m)) and from_json(to_json(m)) give m."""
from .. import catalogue, shapes, sym
from ..explore import region_func
from ..shapes import Bounds
from ..spec import specjson as sj, specmsg as sm
from .c01 import bounds

WARMUP = True  # a concrete first use of the harness before each path (vf/explore.py: WarmEnv)
PROPERTY = "C04"


def _casing(betterproto, name):
    return betterproto.Casing.CAMEL if name == "camel" else betterproto.Casing.SNAKE


@region_func
def c04_bytes_wrapper_set(env):
    """a BytesValue wrapper field is set"""
    cat = catalogue.get(env.params["cat"])
    val = env.aux.get("val", {})
    return any(f.wraps == "bytes" and f.name in val for f in cat.shapes["M"].fields)


@region_func
def c04_bytes_map_nonempty(env):
    cat = catalogue.get(env.params["cat"])
    val = env.aux.get("val", {})
    return any(f.label == "map" and f.kind == "bytes" and len(val.get(f.name, ())) > 0 for f in cat.shapes["M"].fields)


def canonical_nans(env):
    """JSON has one NaN: only the canonical quiet NaN (0x7ff8000000000000) is in the claim."""
    import struct

    for name, v in list(env.vars.items()):
        if getattr(v, "_vf_float", False):
            env.assume(sym.sym_or(sym.sym_not(v.isnan()), sym.mkb(v.bits == 0x7FF8000000000000)))
        elif isinstance(v, float) and v != v:
            env.assume(struct.pack("<d", v) == struct.pack("<Q", 0x7FF8000000000000))


def h_roundtrip(env):
    import betterproto

    cat = catalogue.get(env.params["cat"])
    mod = shapes.build_bp(cat)
    casing = env.params["casing"]
    val = shapes.gen_value(env, cat, "M", b=bounds(env.tier, env.params))
    canonical_nans(env)
    env.aux["val"] = val
    m = sm.to_bp(mod, cat, "M", val)
    data = bytes(m)
    env.observe("bytes", data)
    try:
        d = m.to_dict(casing=_casing(betterproto, casing))
    except Exception as e:
        if type(e).__name__ in ("Unsupported", "EngineLimit"):
            raise
        env.check("to_dict-does-not-raise", False, repr(e))
        return
    env.check("to_dict-does-not-raise", True)
    env.check("to_dict-json-serialisable", sj.json_serialisable(d), "not serialisable: %r" % (_offender(d),))
    for form in ("class", "instance"):
        try:
            back = mod.M.from_dict(d) if form == "class" else mod.M().from_dict(d)
        except Exception as e:
            if type(e).__name__ in ("Unsupported", "EngineLimit"):
                raise
            env.check("from_dict-%s-accepts" % form, False, repr(e))
            continue
        env.check("from_dict-%s==original" % form, back == m)
        try:
            same = bytes(back) == data
        except Exception as e:
            if type(e).__name__ in ("Unsupported", "EngineLimit"):
                raise
            same = False
        env.check("from_dict-%s-same-bytes" % form, same)
    # the text path: natively the real json; symbolically its model (vf/symjson.py), which decides serialisability as json does and what
    # the text parses back to
    try:
        text = m.to_json(casing=_casing(betterproto, casing))
        if not env.sym:
            import json

            json.loads(text)
    except Exception as e:
        if type(e).__name__ in ("Unsupported", "EngineLimit"):
            raise
        env.check("to_json-produces-json", False, repr(e))
        return
    env.check("to_json-produces-json", True)
    try:
        back = mod.M().from_json(text)
        ok = sym.sym_and(back == m, bytes(back) == data)
    except Exception as e:
        if type(e).__name__ in ("Unsupported", "EngineLimit"):
            raise
        ok = False
    env.check("from_json(to_json)==original", ok, "" if env.sym else text[:200])


def _offender(d, path=""):
    if isinstance(d, dict):
        for k, v in d.items():
            if not isinstance(k, str):
                return "%s: key of type %s" % (path, type(k).__name__)
            r = _offender(v, path + "." + str(k) if not getattr(k, "_vf_sym", False) else path + ".<k>")
            if r:
                return r
        return None
    if isinstance(d, list):
        for x in d:
            r = _offender(x, path + "[]")
            if r:
                return r
        return None
    if d is None or isinstance(d, (bool, int, float, str)) or getattr(d, "_vf_sym", False) and not isinstance(d, bytes):
        return None
    return "%s: %s" % (path, type(d).__name__)


def h_time_fields(env):
    """Timestamp / Duration fields (singular, repeated, optional, oneof): the strings are produced by C code (isoformat, isoparse), so this is
    decided at witnesses only: a solver-chosen span / instant (LIA) and boundary constants, through both casings and both from_dict forms"""
    import datetime as _dt
    import json

    from . import c15
    from ..symtime import MAX_US, US_PER_SEC

    n = max(len(c15.BOUNDARY_TD), len(c15.BOUNDARY_TS))
    k = env.choose("case", n + 1)
    if k == n:
        us = env.zint("td_us", -c15.DUR_MAX_US, c15.DUR_MAX_US)
        off, lus = env.zint("offset_min", -1439, 1439), env.zint("local_us", 0, MAX_US)
    else:
        tdv = c15.BOUNDARY_TD[k % len(c15.BOUNDARY_TD)]
        tsv = c15.BOUNDARY_TS[k % len(c15.BOUNDARY_TS)]
        us = env.zint("td_us", tdv, tdv)
        lus, off = env.zint("local_us", tsv[0], tsv[0]), env.zint("offset_min", tsv[1], tsv[1])
    inst = lus - off * 60 * US_PER_SEC
    env.assume(sym.sym_and(inst >= 0, inst <= MAX_US))
    env.check("reached", True)
    if env.sym:
        return
    import betterproto

    td, dt = c15.mk_timedelta(env, us), c15.mk_datetime(env, lus, off)
    cat = c15.positions_catalogue()
    mod = shapes.build_bp(cat)
    cases = {"repeated": dict(rt=[dt, dt], rd=[td, -td]), "optional": dict(ot=dt, od=td), "oneof-timestamp": dict(gt=dt), "oneof-duration": dict(gd=td)}
    for pos, kw in cases.items():
        m = mod.P(**kw)
        for casing in (betterproto.Casing.CAMEL, betterproto.Casing.SNAKE):
            d = m.to_dict(casing=casing)
            for form in ("class", "instance"):
                back = mod.P.from_dict(d) if form == "class" else mod.P().from_dict(d)
                env.check("witness:time-fields-from_dict==original", back == m and bytes(back) == bytes(m), "%s %s %r" % (pos, form, d))
            text = m.to_json(casing=casing)
            back = mod.P().from_json(text)
            env.check("witness:time-fields-from_json==original", back == m and bytes(back) == bytes(m), "%s %s" % (pos, text))


def units(tier):
    u = []
    cats = []
    for kind in catalogue.S1_KINDS:
        for label in catalogue.LABELS:
            if kind.startswith("wrap:") and label in ("optional", "repeated"):
                continue
            cats.append(("s1 %s %s" % (kind, label), ["s1", kind, label]))
    keys = shapes.MAP_KEY_KINDS if tier == "thorough" else ["int32", "string", "bool", "uint64", "sint64"]
    for key in keys:
        for vk in catalogue.S1_MAP_VALUES:
            if tier == "quick" and not (vk in ("int32", "message") or key == "string"):
                continue
            cats.append(("map %s->%s" % (key, vk), ["s1map", key, vk]))
    cats += [("s2 " + n, ["s2", n]) for n in catalogue.S2_NAMES]
    for name, c in cats:
        for casing in ("camel", "snake"):
            if casing == "snake" and tier == "quick" and name.startswith("s1") and not name.endswith("singular"):
                continue
            u.append(("roundtrip[%s | %s]" % (name, casing), h_roundtrip, {"cat": c, "casing": casing}))
    u.append(("time-fields[Timestamp, Duration x singular/repeated/optional/oneof]", h_time_fields, {}))
    from .c19 import h_two_classes

    u.append(("two-classes-with-similar-field-names", h_two_classes, {}))
    return u


BUDGET = {"quick": 240, "thorough": 1200}
UNIT_PATH_CAP = {"quick": 300, "thorough": 20000}
BOUNDS = {
    "quick": "catalogue S1 + maps (5 key kinds) + 10 S2 shapes, casing in {CAMEL, SNAKE}, classmethod and instance form of from_dict; values and sizes as C01; "
    "the dict path is decided symbolically (64-bit ints as opaque decimal strings, bytes through an exact base64 model, non-finite doubles by fork); the JSON text "
    "path (json.dumps / json.loads are C) is executed at every path witness",
    "thorough": "every map key kind x value kind; 20000 paths per unit",
}
OUTSIDE = "NaN payloads other than the canonical quiet NaN (JSON has a single NaN), textual forms of Timestamp / Duration and of finite floats (C code), include_default_values=True"
