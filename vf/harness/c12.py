"""C12 AsyncChannel: exactly-once ordered delivery, no stranded receiver.

The real AsyncChannel and the real asyncio.Queue run on the real event loop; the
*environment* is symbolic: actors wait on external gates before each of their operations
and a driver decides at every step, through an environment choice, which gate to open,
whether to cancel the designated receiver, and whether to let the loop run before the next
decision.  Every explored interleaving is therefore one the real FIFO loop can produce.
The buffer limit is a solver variable (asyncio.Queue.full() forks on it)."""
import asyncio

PROPERTY = "C12"
FILES = ["betterproto/grpc/util/async_channel.py"]


async def settle(n=6):
    for _ in range(n):
        await asyncio.sleep(0)


class Item(tuple):
    """what is sent: (sender, index).  Like a protobuf message whose fields all hold their defaults, the first item of every sender is falsy"""

    def __bool__(self):
        return self[1] != 0


async def scenario(env, cfg):
    from betterproto.grpc.util.async_channel import AsyncChannel, ChannelClosed, ChannelDone

    limit = env.int("buffer_limit", 0, 3) if cfg.get("limit") is None else cfg["limit"]
    ch = AsyncChannel(buffer_limit=limit)
    loop = asyncio.get_running_loop()
    gates = {}
    log = {"recv": {}, "sent": [], "rejected": [], "ended": {}, "closed": False, "late_send": [], "sent_before_close": []}

    def gate(name):
        f = loop.create_future()
        gates[name] = f
        return f

    async def sender(sid, items, mode):
        if mode in ("send_from-close", "send_from-async-close"):
            # the sender itself closes the channel after its batch (close=True); there is no other closer in these configurations
            batch = [Item((sid, i)) for i in range(items)]

            async def source():
                for x in batch:
                    await gate("s%d" % sid)
                    yield x

            await gate("s%d" % sid)
            try:
                await ch.send_from(batch if mode == "send_from-close" else source(), close=True)
                log["sent"] += batch
                log["sent_before_close"] += batch  # close() comes after the last item of the batch was enqueued
                log["closed"] = True
            except ChannelClosed:
                log["rejected"] += batch
            return
        if mode == "send_from":
            await gate("s%d" % sid)
            try:
                await ch.send_from([Item((sid, i)) for i in range(items)])
                log["sent"] += [(sid, i) for i in range(items)]
                if not log["closed"]:
                    log["sent_before_close"] += [(sid, i) for i in range(items)]
            except ChannelClosed:
                log["rejected"] += [(sid, i) for i in range(items)]
            return
        for i in range(items):
            await gate("s%d" % sid)
            was_closed = log["closed"]
            try:
                await ch.send(Item((sid, i)))
                log["sent"].append((sid, i))
                if not log["closed"]:
                    log["sent_before_close"].append((sid, i))  # the send completed before the channel was closed
                if was_closed:
                    log["late_send"].append((sid, i))
            except ChannelClosed:
                log["rejected"].append((sid, i))

    async def receiver(rid, mode):
        got = log["recv"].setdefault(rid, [])
        try:
            if mode in ("receive-free", "iter-free"):
                # only the start is gated: afterwards the receiver runs as fast as the loop lets it (it re-blocks in the same tick)
                await gate("r%d" % rid)
                if mode == "iter-free":
                    async for x in ch:
                        got.append(x)
                    log["ended"][rid] = "end-of-iteration"
                    return
                while True:
                    try:
                        x = await ch.receive()
                    except ChannelDone:
                        log["ended"][rid] = "ChannelDone"
                        return
                    if x is None:
                        log["ended"][rid] = "None"
                        return
                    got.append(x)
            if mode == "iter":
                await gate("r%d" % rid)
                async for x in ch:
                    got.append(x)
                    await gate("r%d" % rid)
                log["ended"][rid] = "end-of-iteration"
                return
            while True:
                await gate("r%d" % rid)
                try:
                    x = await ch.receive()
                except ChannelDone:
                    log["ended"][rid] = "ChannelDone"
                    return
                if x is None:
                    log["ended"][rid] = "None"
                    return
                got.append(x)
        except asyncio.CancelledError:
            log["ended"][rid] = "cancelled"
            raise

    async def closer():
        await gate("c")
        ch.close()
        log["closed"] = True

    tasks = {}
    for sid, (items, mode) in enumerate(cfg["senders"]):
        tasks["s%d" % sid] = asyncio.ensure_future(sender(sid, items, mode))
    for rid, mode in enumerate(cfg["receivers"]):
        tasks["r%d" % rid] = asyncio.ensure_future(receiver(rid, mode))
    if cfg.get("closer", True):
        tasks["c"] = asyncio.ensure_future(closer())
    await settle(3)
    cancel_target = cfg.get("cancel")
    cancelled = False
    step = 0
    while step < cfg["steps"]:
        waiting = sorted(k for k, f in gates.items() if not f.done() and not tasks[k].done())
        options = list(waiting)
        if cancel_target is not None and not cancelled and not tasks[cancel_target].done():
            options.append("cancel")
        if not options:
            break
        k = options[env.choose("step%d" % step, len(options))]
        if k == "cancel":
            tasks[cancel_target].cancel()
            cancelled = True
        else:
            gates[k].set_result(None)
        y = env.choose("yield%d" % step, 3 if cfg.get("fine") else 2)
        if y == 1:
            await settle()
        elif y == 2:
            await asyncio.sleep(0)  # exactly one loop iteration: the next decision lands between two callbacks of the same burst
        step += 1
    await settle(10)
    # drain: everything that is still gated is released, the channel gets closed, receivers keep receiving until done
    for _ in range(12):
        for k, f in list(gates.items()):
            if not f.done():
                f.set_result(None)
        await settle()
    stuck = sorted(k for k, t in tasks.items() if not t.done())
    if not stuck and cancelled:
        # the cancelled receiver may have been the last one: the channel must still be usable and hold the items nobody took
        got = log["recv"].setdefault(99, [])
        for _ in range(8):
            if ch.done():
                break
            x = await ch.receive()
            if x is None:
                break
            got.append(x)
    for t in tasks.values():
        if not t.done():
            t.cancel()
    await settle(3)
    errors = {}
    for k, t in tasks.items():
        if t.done() and not t.cancelled() and t.exception() is not None:
            errors[k] = repr(t.exception())
    # a send after close must be rejected
    late = None
    try:
        await ch.send("late")
        late = "accepted"
    except ChannelClosed:
        late = "ChannelClosed"
    return log, stuck, errors, late, cancelled


def h_channel(env):
    cfg = env.params
    loop = asyncio.new_event_loop()
    try:
        log, stuck, errors, late, cancelled = loop.run_until_complete(scenario(env, cfg))
    finally:
        loop.close()
    received = [x for r in sorted(log["recv"]) for x in log["recv"][r]]
    env.observe("received", sorted(map(list, received)))
    env.observe("ended", sorted(log["ended"].items()))
    env.check("no-task-failed-with-an-unexpected-error", not errors, repr(errors))
    # the guarantee is about receivers (and close itself); a sender that was already blocked on a full bounded buffer when the
    # channel was closed and that no receiver drains any more is outside the statement (recorded as an observation)
    stuck_senders = [k for k in stuck if k.startswith("s")]
    stuck = [k for k in stuck if not k.startswith("s")]
    env.observe("senders-left-blocked", stuck_senders)
    env.check("no-stranded-receiver", not stuck, "still blocked at quiescence: %r ; ended=%r" % (stuck, log["ended"]))
    stuck_all = stuck + stuck_senders
    env.check("nothing-received-twice", len(set(received)) == len(received), repr(received))
    env.check("nothing-invented", set(received) <= set(log["sent"]) | set(log["rejected"]) and not (set(received) & set(log["rejected"])), repr(received))
    if not stuck_all and not errors:
        # the guarantee covers items whose send completed before close(); a send that was blocked on a full buffer and completes
        # after close() may or may not be delivered (never twice: checked above)
        missing = [x for x in log["sent_before_close"] if x not in received]
        env.check("every-send-completed-before-close-received-exactly-once", not missing, "sent before close %r, received %r" % (log["sent_before_close"], received))
    for rid, got in log["recv"].items():
        for sid in range(len(cfg["senders"])):
            seq = [i for (s, i) in got if s == sid]
            env.check("per-sender-order-preserved", seq == sorted(seq), "receiver %d got %r" % (rid, got))
    for rid in range(len(cfg["receivers"])):
        end = log["ended"].get(rid)
        ok = end in ("None", "ChannelDone", "end-of-iteration") or (end == "cancelled" and cancelled and cfg.get("cancel") == "r%d" % rid)
        if not stuck:
            env.check("receivers-terminate-after-close", ok, "receiver %d: %r" % (rid, end))
    env.check("send-after-close-raises-ChannelClosed", late == "ChannelClosed", late)
    if cancelled:
        env.check("cancellation-surfaces-as-cancellation", log["ended"].get(int(cfg["cancel"][1:])) in ("cancelled", "None", "ChannelDone", "end-of-iteration"), repr(log["ended"]))


def units(tier):
    u = []

    def add(name, **cfg):
        u.append((name, h_channel, cfg))

    # (senders: (items, mode)), receivers: modes, steps = driver decisions before the drain
    add("1 sender x2 | 1 receiver", senders=[(2, "send")], receivers=["receive"], steps=5)
    add("1 sender x2 | 1 iterator", senders=[(2, "send")], receivers=["iter"], steps=5)
    add("1 sender x2 | 2 receivers", senders=[(2, "send")], receivers=["receive", "receive"], steps=6)
    add("1 sender x2 | receiver + iterator", senders=[(2, "send")], receivers=["receive", "iter"], steps=6)
    add("2 senders x1 | 2 receivers", senders=[(1, "send"), (1, "send")], receivers=["receive", "receive"], steps=6)
    add("send_from x2 | 2 receivers", senders=[(2, "send_from")], receivers=["receive", "receive"], steps=5)
    add("1 sender x2 | 2 receivers, cancel r0", senders=[(2, "send")], receivers=["receive", "receive"], steps=6, cancel="r0")
    add("1 sender x1 | 1 receiver, cancel r0", senders=[(1, "send")], receivers=["receive"], steps=4, cancel="r0")
    add("1 sender x2 | iterator + receiver, cancel r0", senders=[(2, "send")], receivers=["iter", "receive"], steps=6, cancel="r0")
    add("1 sender x2 | 2 free-running receivers", senders=[(2, "send")], receivers=["receive-free", "receive-free"], steps=6)
    add("1 sender x2 | free receiver + free iterator", senders=[(2, "send")], receivers=["receive-free", "iter-free"], steps=6)
    add("2 senders x1 | 2 free-running receivers, cancel r0", senders=[(1, "send"), (1, "send")], receivers=["receive-free", "receive-free"], steps=6, cancel="r0")
    add("send_from x2 | 2 free-running receivers", senders=[(2, "send_from")], receivers=["receive-free", "receive-free"], steps=5)
    # fine-grained driver: may also yield exactly one loop iteration between two decisions
    add("1 sender x1 | 2 receivers, fine-grained", senders=[(1, "send")], receivers=["receive", "receive"], steps=5, fine=True)
    add("1 sender x1 | free receiver + receiver, fine-grained", senders=[(1, "send")], receivers=["receive-free", "receive"], steps=5, fine=True)
    add("no sender | 2 receivers, fine-grained", senders=[], receivers=["receive", "receive"], steps=4, fine=True)
    add("no sender | iterator + receiver, fine-grained", senders=[], receivers=["iter", "receive"], steps=4, fine=True)
    # the batch sender closes the channel itself (send_from(..., close=True)); bounded buffers make it suspend inside the batch
    add("send_from(list, close=True) x2 | free receiver", senders=[(2, "send_from-close")], receivers=["receive-free"], steps=3, closer=False)
    add("send_from(list, close=True) x2 | receiver + free iterator", senders=[(2, "send_from-close")], receivers=["receive", "iter-free"], steps=4, closer=False)
    add("send_from(async source, close=True) x2 | free iterator", senders=[(2, "send_from-async-close")], receivers=["iter-free"], steps=4, closer=False)
    add("send_from(async source, close=True) x2 | 2 receivers", senders=[(2, "send_from-async-close")], receivers=["receive", "receive-free"], steps=5, closer=False)
    if tier == "thorough":
        add("send_from(list, close=True) x3 | 2 free-running receivers", senders=[(3, "send_from-close")], receivers=["receive-free", "iter-free"], steps=5, closer=False)
        add("1 sender x3 | 2 free-running receivers", senders=[(3, "send")], receivers=["receive-free", "receive-free"], steps=8)
        add("1 sender x3 | 2 receivers", senders=[(3, "send")], receivers=["receive", "receive"], steps=8)
        add("2 senders x2 | 2 receivers", senders=[(2, "send"), (2, "send")], receivers=["receive", "receive"], steps=8)
        add("1 sender x2 | 3 receivers", senders=[(2, "send")], receivers=["receive", "receive", "iter"], steps=8)
        add("2 senders x1 | 3 receivers, cancel r1", senders=[(1, "send"), (1, "send")], receivers=["receive", "receive", "receive"], steps=8, cancel="r1")
        add("1 sender x3 | receiver + iterator, cancel r0", senders=[(3, "send")], receivers=["receive", "iter"], steps=8, cancel="r0")
    return u


BUDGET = {"quick": 200, "thorough": 1200}
UNIT_PATH_CAP = {"quick": 6000, "thorough": 200000}
BOUNDS = {
    "quick": "configurations: 1-2 senders x 1-2 items (send or send_from), 1-2 receivers (receive() loop or async-for, gated before every receive or free-running after the first gate), one closer, optionally cancellation of one "
    "receiver at any point; buffer limit symbolic in 0..3 (0 = unbounded); 4-6 driver decisions (which gated actor proceeds next / cancel, and whether the loop runs before the next decision: "
    "not at all / until quiescent / in the fine-grained units exactly one iteration), then a drain phase that releases every remaining gate; every schedule of the decision tree, 6000 paths per unit",
    "thorough": "up to 3 items / 3 receivers, 8 driver decisions, 200000 paths per unit",
}
OUTSIDE = ("asyncio.wait_for time-outs (modelled by cancellation, which is what wait_for does), real network back-pressure, larger configurations; "
           "the schedule variables are unconstrained, so for them the solver only prunes: the decision is exhaustive exploration of the choice tree inside the bound")
