"""C19 Name mapping is total and safe, and JSON keys map back to their fields."""
import keyword as _kw

import z3

from .. import sym
from ..explore import region_func
from ..sym import B, mkb

PROPERTY = "C19"
FILES = ["betterproto/casing.py", "betterproto/compile/naming.py", "betterproto/__init__.py"]


def ident(env, name, n, first_upper=None):
    """a proto identifier of length n: [A-Za-z_][A-Za-z0-9_]*"""
    s = env.str(name, n, lo=0x30, hi=0x7A)
    if env.sym:
        for i, c in enumerate(s.items):
            letter = z3.Or(z3.And(z3.UGE(c, 65), z3.ULE(c, 90)), z3.And(z3.UGE(c, 97), z3.ULE(c, 122)), c == 95)
            digit = z3.And(z3.UGE(c, 48), z3.ULE(c, 57))
            env.assume(mkb(letter if i == 0 else z3.Or(letter, digit)))
    else:
        import re

        if not re.fullmatch(r"[A-Za-z_][A-Za-z0-9_]*", s):
            env.assume(False)
    return s


def is_identifier(s):
    return s.isidentifier()


def is_keyword(s):
    if getattr(s, "_vf_sym", False):
        from ..symre import KwShim

        return KwShim().iskeyword(s)
    return _kw.iskeyword(s)


def same(a, b):
    r = a == b
    return False if r is NotImplemented else r


def _search(pat, s):
    if getattr(s, "_vf_sym", False):
        from ..symre import compile_

        return compile_(pat).search(s) is not None
    import re

    return re.search(pat, s) is not None


@region_func
def c19_camel_key_region(env):
    """python field names in which camelCase loses a word boundary: an underscore followed by a digit
    (address_line_1) or a one-letter word between underscores followed by another one-letter word (x_y_z)"""
    f = env.aux["field"]
    return _search(r"[a-z0-9]_[0-9]", f) or _search(r"_[a-z]_[a-z]([0-9_]|$)", f)


@region_func
def c19_class_not_identifier_region(env):
    """type names made of underscores only, or of underscores followed by a digit: pascal_case leaves '' or a leading digit"""
    return _search(r"^_*([0-9].*)?$", env.vars["name"])


@region_func
def c19_class_keyword_region(env):
    c = env.aux["class"]
    return sym.sym_or(same(c, "True"), same(c, "False"), same(c, "None"))


@region_func
def c19_class_idempotent_region(env):
    """class names holding an upper-case run of two or more letters that is not followed by a lower-case letter (AB, HTTP2, AbCD)"""
    return _search(r"[A-Z][A-Z]([^a-z]|$)", env.aux["class"])


def h_field_names(env):
    """safe_snake_case is total, safe, idempotent; every key to_dict can emit maps back to the field"""
    from betterproto import casing
    from betterproto.compile import naming

    n = ident(env, "name", env.params["n"])
    f = naming.pythonize_field_name(n)
    env.observe("field", f)
    env.aux["field"] = f
    env.check("field-name-is-identifier", is_identifier(f))
    env.check("field-name-not-keyword", not is_keyword(f))
    env.check("field-name-idempotent", same(casing.safe_snake_case(f), f))
    # keys emitted by to_dict for this field, and the original proto name, map back (from_dict: safe_snake_case(key))
    camel_key = casing.camel_case(f).rstrip("_")
    snake_key = casing.snake_case(f).rstrip("_")
    env.observe("camel_key", camel_key)
    env.check("camelCase-key-maps-back", same(casing.safe_snake_case(camel_key), f))
    env.check("snake_case-key-maps-back", same(casing.safe_snake_case(snake_key), f))
    env.check("proto-name-maps-back", same(casing.safe_snake_case(n), f))
    if not env.sym:
        _witness_end_to_end(env, str(n), str(f), str(camel_key), str(snake_key))


def _witness_end_to_end(env, n, f, camel_key, snake_key):
    """at the path witness: a real message class with this field; every key whose name mapping holds must be accepted by from_dict
    (isolates what from_dict does with a key beyond safe_snake_case; keys inside a known name-mapping region are skipped)"""
    import dataclasses

    import betterproto
    from betterproto import casing

    if not f.isidentifier() or _kw.iskeyword(f) or hasattr(betterproto.Message, f) or f.startswith("_betterproto") or f in ("_serialized_on_wire", "_unknown_fields", "_group_current"):
        return
    cls = dataclasses.dataclass(eq=False, repr=False)(type("W", (betterproto.Message,), {"__annotations__": {f: int}, f: betterproto.int32_field(1), "__module__": __name__}))
    m = cls(**{f: 5})
    for key in (n, camel_key, snake_key):
        if casing.safe_snake_case(key) != f:
            continue
        for back in (cls().from_dict({key: 5}), cls.from_dict({key: 5})):
            env.check("witness:from_dict-accepts-a-key-that-maps-back", getattr(back, f) == 5 and bytes(back) == bytes(m), "%r -> field %r" % (key, f))
    for c in (betterproto.Casing.CAMEL, betterproto.Casing.SNAKE):
        d = m.to_dict(casing=c)
        env.check("witness:to_dict-emits-the-computed-key", list(d) == [camel_key if c is betterproto.Casing.CAMEL else snake_key], "%r" % (d,))


def h_method_class_names(env):
    from betterproto import casing
    from betterproto.compile import naming

    n = ident(env, "name", env.params["n"])
    m = naming.pythonize_method_name(n)
    env.check("method-name-is-identifier", is_identifier(m))
    env.check("method-name-not-keyword", not is_keyword(m))
    env.check("method-name-idempotent", same(naming.pythonize_method_name(m), m))
    c = naming.pythonize_class_name(n)
    env.observe("class", c)
    env.aux["class"] = c
    env.check("class-name-is-identifier", is_identifier(c))
    env.check("class-name-not-keyword", not is_keyword(c))
    env.check("class-name-idempotent", same(naming.pythonize_class_name(c), c))


def h_enum_member_names(env):
    from betterproto.compile import naming

    e = ident(env, "enum", env.params["e"])
    v = ident(env, "member", env.params["n"])
    r = naming.pythonize_enum_member_name(v, e)
    env.observe("member", r)
    env.check("enum-member-is-identifier", is_identifier(r))
    env.check("enum-member-not-keyword", not is_keyword(r))


CORPUS = ["address_line_1", "ipv4_address", "x_y_z", "HTTPStatus", "class", "from", "None", "True", "match", "case", "type", "print", "list", "id",
          "_private", "__dunder__", "camelCase", "PascalCase", "SCREAMING_SNAKE", "mixed_Case_Name", "a1b2", "a_1", "value_", "_", "__", "UPPER", "lower",
          "foo__bar", "fooBar_baz", "X", "x", "iPhone", "HTTPSConnection", "field1", "field_1_name", "await", "async", "is", "in", "def"] + list(_kw.kwlist) + list(_kw.softkwlist)  # fmt: skip


def h_corpus(env):
    """the keyword / builtin lists and a real-world corpus as additional concrete inputs (cheap, not the deciding step)"""
    from betterproto import casing
    from betterproto.compile import naming

    i = env.choose("i", len(CORPUS))
    n = CORPUS[i]
    f = naming.pythonize_field_name(n)
    env.aux["field"] = f
    env.check("field-name-is-identifier", f.isidentifier())
    env.check("field-name-not-keyword", not _kw.iskeyword(f))
    env.check("field-name-idempotent", casing.safe_snake_case(f) == f)
    env.check("camelCase-key-maps-back", casing.safe_snake_case(casing.camel_case(f).rstrip("_")) == f, "%r -> %r -> %r" % (f, casing.camel_case(f).rstrip("_"), casing.safe_snake_case(casing.camel_case(f).rstrip("_"))))
    env.check("snake_case-key-maps-back", casing.safe_snake_case(casing.snake_case(f).rstrip("_")) == f)
    env.check("proto-name-maps-back", casing.safe_snake_case(n) == f)


# pairs of field names that are close to each other; the first of each pair maps back from every key to_dict emits for it
# (the second may lie in the known region `camelCase key loses a word boundary`, and only its proto name is checked)
PAIRS = [("address_line1", "address_line_1"), ("ipv4", "ipv_4"), ("x1", "x_1"), ("field1_name", "field_1_name"), ("ab", "a_b"), ("foo_bar", "foo__bar"), ("xyz", "x_yz"),
         # proto identifiers may start with underscores: the proto name itself, and the digit-leading keys to_dict emits for `_<digit>...`, are keys from_dict has to accept
         ("_id", "id2"), ("_2fa_code", "_2fa"), ("_1a", "_1"), ("__meta", "_meta_x")]


def h_two_classes(env):
    """end to end through Message.to_dict / from_dict: two message classes in one process whose field names are close (same camelCase key or
    same letters); the keys to_dict emits for the first one, and its proto name, map back to its field whatever the other class did before"""
    import betterproto

    from .. import shapes
    from ..shapes import F, Catalogue, Shape

    from betterproto.compile import naming

    i = env.choose("pair", len(PAIRS))
    p1, p2 = PAIRS[i]
    # the Python field names are what the plugin generates for these proto names
    n1, n2 = str(naming.pythonize_field_name(p1)), str(naming.pythonize_field_name(p2))
    cat = Catalogue("c19-two-%d" % i, [Shape("M", [F(n1, 1, "int32"), F("other", 2, "int32")]), Shape("Other", [F(n2, 1, "int32"), F("other", 2, "string")])], [])
    mod = shapes.build_bp(cat)
    v = env.int("v", -64, 63)
    order = env.choose("other-class-used", 4)  # never | before M's first use | between M's to_dict and from_dict (two ways)

    def use_other():
        if order == 3:
            mod.Other().from_dict({p2: 1, "other": "x"})
        else:
            mod.Other(**{n2: 1}).to_dict()

    if order == 1:
        use_other()
    m = mod.M(**{n1: v, "other": 7})
    for casing in (betterproto.Casing.CAMEL, betterproto.Casing.SNAKE):
        d = m.to_dict(casing=casing)
        if order >= 2:
            use_other()
        back = mod.M().from_dict(d)
        env.check("emitted-keys-map-back", sym.sym_and(back == m, bytes(back) == bytes(m)), "%r" % (sorted(d),))
    back = mod.M().from_dict({p1: v, "other": 7})
    env.check("proto-name-maps-back", back == m)
    o = mod.Other().from_dict({p2: v})
    env.check("proto-name-maps-back", getattr(o, n2) == v)


def h_key_tree(env):
    """the keys to_dict emits at every level of a message tree (singular, repeated and map-valued sub-messages) are the requested casing of
    the field names, and the snake_case keys map back to the fields; field names include the ones whose camelCase key loses a word boundary"""
    import betterproto
    from betterproto import casing as _casing

    from .. import shapes
    from ..shapes import F, Catalogue, Shape

    names = ["address_line_1", "x_y_z", "plain", "two_words"]
    n = Shape("N", [F(nm, i + 1, "int32") for i, nm in enumerate(names)])
    m = Shape("M", [F("sub_msg", 1, "message", msg="N"), F("rep_msg", 2, "message", "repeated", msg="N"), F("map_msg", 3, "message", "map", key="string", msg="N"),
                    F("retry_count", 4, "int32", group="choice_group"), F("http_status", 5, "string", group="choice_group"), F("plain", 6, "bool", group="choice_group")])
    cat = Catalogue("c19-key-tree", [m, n], [])
    mod = shapes.build_bp(cat)

    def leaf(tag):
        return mod.N(**{nm: env.int("%s.%s" % (tag, nm), 1, 63) for nm in names})

    # a oneof member with a multi-word name, holding its default or another value
    member = ["", "retry_count", "http_status", "plain"][env.choose("member", 4)]
    default = env.choose("member-default", 2) if member else 1
    kw = {member: {"retry_count": 0, "http_status": "", "plain": False}[member] if default else {"retry_count": 7, "http_status": "x", "plain": True}[member]} if member else {}
    msg = mod.M(sub_msg=leaf("s"), rep_msg=[leaf("r")], map_msg={"k": leaf("m")}, **kw)
    for cname, cas, fn in (("camel", betterproto.Casing.CAMEL, _casing.camel_case), ("snake", betterproto.Casing.SNAKE, _casing.snake_case)):
        d = msg.to_dict(casing=cas)
        top = {fn(x): x for x in ("sub_msg", "rep_msg", "map_msg") + ((member,) if member else ())}
        env.check("top-level-keys-in-requested-casing[%s]" % cname, sorted(d) == sorted(top), "%r" % (sorted(d),))
        if sorted(d) != sorted(top):
            continue
        want = sorted(fn(x) for x in names)
        inv = {v: k for k, v in top.items()}
        for where, sub in (("singular", d[inv["sub_msg"]]), ("repeated", d[inv["rep_msg"]][0]), ("map-value", d[inv["map_msg"]]["k"])):
            env.check("nested-keys-in-requested-casing[%s]" % cname, sorted(sub) == want, "%s: %r" % (where, sorted(sub)))
        if cname == "snake":
            back = mod.M().from_dict(d)
            env.check("snake_case-keys-map-back-at-every-level", sym.sym_and(back == msg, bytes(back) == bytes(msg)))
            env.check("selected-member-survives-the-dict-round-trip", betterproto.which_one_of(back, "choice_group")[0] == member)


def units(tier):
    u = []
    top = 4 if tier == "quick" else 6
    for n in range(1, top + 1):
        u.append(("field-names[len=%d]" % n, h_field_names, {"n": n}))
    for n in range(1, (4 if tier == "quick" else 5) + 1):
        u.append(("method-class-names[len=%d]" % n, h_method_class_names, {"n": n}))
    for e in range(1, 4):
        for n in range(1, (3 if tier == "quick" else 4) + 1):
            u.append(("enum-member-names[enum=%d member=%d]" % (e, n), h_enum_member_names, {"e": e, "n": n}))
    u.append(("corpus", h_corpus, {}))
    u.append(("two-classes-with-similar-field-names", h_two_classes, {}))
    u.append(("keys-at-every-level-of-a-message-tree", h_key_tree, {}))
    return u


BUDGET = {"quick": 200, "thorough": 1200}
UNIT_PATH_CAP = {"quick": 20000, "thorough": 400000}
BOUNDS = {
    "quick": "every identifier [A-Za-z_][A-Za-z0-9_]* of length 1..4 (each character symbolic: 63**4 strings decided through character-class forks and "
    "keyword comparisons) for field names; length 1..4 for method and class names; enum names of length 1..3 x member names 1..3; plus the keyword lists and a corpus",
    "thorough": "field names up to length 6, method/class names up to 5, enum members up to 4",
}
OUTSIDE = "identifiers longer than the bound, non-ASCII identifiers (protoc rejects them)"
