"""C06 Proto3 defaults and field presence are encoded and recovered correctly."""
from .. import catalogue, shapes, sym
from ..shapes import Bounds, default_of
from ..spec import specjson as sj, specmsg as sm, specwire as sw

WARMUP = True  # a concrete first use of the harness before each path (vf/explore.py: WarmEnv)
PROPERTY = "C06"
WAYS = ["ctor", "attr", "parse", "from_dict-class", "from_dict-instance"]


def gen_presence(env, cat, shape, pfx="", depth=0):
    """value tree in which every leaf is {never set, set to the type default, set to a non-default value}"""
    s = cat.shapes[shape]
    b = Bounds(rep=1, mapn=1, strlen=1, depth=1, narrow=True)
    val = {}
    done = set()

    def leaf(f, name, kind):
        st = env.choose(name + "#state", 3)
        if st == 0:
            return None
        if kind == "enum":
            return 0 if st == 1 else [1, -1][env.choose(name + "#enum", 2)]
        if st == 1:
            return default_of(kind)
        v = shapes.gen_scalar(env, name, kind, b, True)
        env.assume(sym.sym_not(sm.is_default(kind, v)))
        return v

    for f in s.fields:
        name = pfx + f.name
        if f.group:
            if f.group in done:
                continue
            done.add(f.group)
            members = s.groups()[f.group]
            k = env.choose(pfx + f.group + "#sel", len(members) + 1)
            if k == 0:
                continue
            f = members[k - 1]
            name = pfx + f.name
            if f.kind == "message" and not f.wraps:
                val[f.name] = gen_presence(env, cat, f.msg, name + ".", depth + 1) if depth < 1 else {}
            else:
                v = leaf(f, name, f.wraps or f.kind)
                val[f.name] = v if v is not None else default_of(f.wraps or f.kind) if f.kind != "enum" else 0
            continue
        if f.label == "repeated":
            n = env.choose(name + "#n", 2)
            if n:
                if f.kind == "message":
                    val[f.name] = [gen_presence(env, cat, f.msg, name + "[0].", depth + 1) if depth < 1 else {}]
                else:
                    v = leaf(f, name + "[0]", f.kind)
                    val[f.name] = [v if v is not None else (0 if f.kind == "enum" else default_of(f.kind))]
        elif f.label == "map":
            n = env.choose(name + "#n", 2)
            if n:
                kk = leaf(f, name + ".k", f.key)
                vv = leaf(f, name + ".v", f.kind) if f.kind != "message" else {}
                val[f.name] = [(kk if kk is not None else default_of(f.key), vv if vv is not None else (0 if f.kind == "enum" else default_of(f.kind)))]
        elif f.kind == "message" and not f.wraps:
            st = env.choose(name + "#state", 3)
            if st == 0 or depth >= 1:
                continue
            sub = gen_presence(env, cat, f.msg, name + ".", depth + 1) if st == 2 else {}
            if st == 1 or not cat.shapes[f.msg].fields:
                sub["__received__"] = True  # empty but present (a value of a type without fields is present as soon as it is assigned)
            val[f.name] = sub
        else:
            v = leaf(f, name, f.wraps or f.kind)
            if v is not None:
                val[f.name] = v
    return val


def mark_received(cat, shape, val):
    """from_dict / parse make every nested message that occurs present"""
    s = cat.shapes[shape]
    for f in s.fields:
        if f.name in val and f.kind == "message" and not f.wraps:
            if f.label == "repeated":
                for x in val[f.name]:
                    mark_received(cat, f.msg, x)
            elif f.label == "map":
                for _, x in val[f.name]:
                    mark_received(cat, f.msg, x)
            elif len(val[f.name]):
                val[f.name]["__received__"] = True
                mark_received(cat, f.msg, val[f.name])


def emitted_numbers(buf):
    return sorted(int(n) if not isinstance(n, int) else n for n, _, _, _ in sw.split_fields(buf))


def presence_report(cat, shape, m):
    """what the public presence API says about a betterproto message"""
    import betterproto

    s = cat.shapes[shape]
    rep = {}
    for g in s.groups():
        rep["oneof " + g] = betterproto.which_one_of(m, g)[0]
    for f in s.fields:
        if f.group:
            continue
        if f.label == "optional":
            rep["is_set " + f.name] = m.is_set(f.name)
        elif f.wraps:
            rep["wrapper " + f.name] = getattr(m, f.name) is not None
        elif f.kind == "message" and f.label == "singular":
            rep["sub " + f.name] = betterproto.serialized_on_wire(getattr(m, f.name))
    return rep


def expected_report(cat, shape, val):
    s = cat.shapes[shape]
    c = sm.canon_of_value(cat, shape, val)
    rep = {}
    for g in s.groups():
        rep["oneof " + g] = c["g"][g]
    for f in s.fields:
        if f.group:
            continue
        if f.label == "optional":
            rep["is_set " + f.name] = c["f"][f.name] is not None
        elif f.wraps:
            rep["wrapper " + f.name] = c["f"][f.name] is not None
        elif f.kind == "message" and f.label == "singular":
            rep["sub " + f.name] = c["f"][f.name] is not None
    return rep


def h_fresh(env):
    """a freshly constructed message reads every field as its proto3 default and encodes to zero bytes"""
    import betterproto

    cat = catalogue.get(env.params["cat"])
    mod = shapes.build_bp(cat)
    m = mod.M()
    env.check("fresh-encodes-to-nothing", bytes(m) == b"")
    env.check("fresh-len-0", m.__len__() == 0)
    exp = sm.canon_of_value(cat, "M", {})
    env.check("fresh-reads-defaults", sm.canon_equal(cat, "M", sm.canon_of_bp(cat, "M", m), exp))
    env.check("fresh-nothing-present", presence_report(cat, "M", m) == expected_report(cat, "M", {}))
    from .c14 import read_all

    read_all(cat, "M", m)  # also reads the fields *inside* lazily created sub-messages
    env.check("reading-defaults-does-not-set", bytes(m) == b"" and m.__len__() == 0)
    env.check("still-nothing-present-after-reads", presence_report(cat, "M", m) == expected_report(cat, "M", {}))
    env.observe("bytes", bytes(m))


def h_presence(env):
    cat = catalogue.get(env.params["cat"])
    mod = shapes.build_bp(cat)
    way = env.params["way"]
    val = gen_presence(env, cat, "M")
    if way in ("ctor", "attr"):
        m = sm.to_bp(mod, cat, "M", val, how=way)
    elif way == "parse":
        m = mod.M().parse(sym.wire(sm.spec_encode(cat, "M", val)))
        mark_received(cat, "M", val)
    else:
        d = sj.to_json(cat, "M", val, "camel", native_map_keys=True, native_wrappers=True, native_map_values=True)
        m = mod.M.from_dict(d) if way == "from_dict-class" else mod.M().from_dict(d)
        mark_received(cat, "M", val)
    if env.params.get("carry"):
        # presence is a property of the value: a copy taken before anything has read or encoded the message carries it unchanged
        import copy as _copy

        m = _copy.deepcopy(m) if env.params["carry"] == "deepcopy" else _copy.copy(m)
    data = bytes(m)
    env.observe("bytes", data)
    spec = sm.spec_encode(cat, "M", val)
    try:
        got = emitted_numbers(data)
    except sw.SpecDecodeError as e:
        env.check("emission-well-formed", False, str(e))
        return
    env.check("emitted-fields==prescribed", got == emitted_numbers(spec), "emitted %r, prescribed %r" % (got, emitted_numbers(spec)))
    try:
        view = sm.spec_decode(cat, "M", data)
        env.check("emission-denotes-value", sm.canon_equal(cat, "M", view, sm.canon_of_value(cat, "M", val)))
    except sw.SpecDecodeError as e:
        env.check("emission-denotes-value", False, str(e))
    m2 = mod.M().parse(data)
    rep = presence_report(cat, "M", m2)
    exp = expected_report(cat, "M", val)
    env.check("decoded-presence==prescribed", rep == exp, "reported %r, prescribed %r" % (rep, exp))
    env.check("constructed-presence==prescribed", presence_report(cat, "M", m) == exp, "reported %r" % (presence_report(cat, "M", m),))
    if not env.sym:
        ref = shapes.build_ref(cat)
        r = ref["M"].FromString(bytes(data))
        rrep = {}
        s = cat.shapes["M"]
        for g in s.groups():
            rrep["oneof " + g] = r.WhichOneof(g) or ""
        for f in s.fields:
            if f.group:
                continue
            if f.label == "optional":
                rrep["is_set " + f.name] = r.HasField(f.name)
            elif f.wraps:
                rrep["wrapper " + f.name] = r.HasField(f.name)
            elif f.kind == "message" and f.label == "singular":
                rrep["sub " + f.name] = r.HasField(f.name)
        env.check("witness:reference-HasField==prescribed", rrep == exp, "reference %r, prescribed %r" % (rrep, exp))


def h_received_empty(env):
    """an empty message that was *received* (through every decoding entry point) is present: serialized_on_wire reports it, and as a plain
    sub-message of another message it is emitted (0a 00) - unlike a fresh Leaf() that nobody ever touched"""
    import betterproto

    cat = catalogue.get(["s2", "nested"])
    mod = shapes.build_bp(cat)
    ways = ["parse", "FromString", "load-delimited", "load-size-0", "load-no-size", "from_dict-class", "from_dict-instance", "fresh"]
    way = ways[env.choose("way", len(ways))]
    if way == "parse":
        x = mod.Leaf().parse(b"")
    elif way == "FromString":
        x = mod.Leaf.FromString(b"")
    elif way == "load-delimited":
        x = mod.Leaf().load(betterproto.BytesIO(bytes([0]) + bytes([2, 8, 1])), betterproto.SIZE_DELIMITED)
    elif way == "load-size-0":
        x = mod.Leaf().load(betterproto.BytesIO(bytes([8, 1])), 0)
    elif way == "load-no-size":
        x = mod.Leaf().load(betterproto.BytesIO(b""))
    elif way == "from_dict-class":
        x = mod.Leaf.from_dict({})
    elif way == "from_dict-instance":
        x = mod.Leaf().from_dict({})
    else:
        x = mod.Leaf()
    received = way != "fresh"
    import copy as _copy

    carry = env.choose("carry", 5)  # as is | copy of the leaf | deepcopy of the leaf | deepcopy of the parent | leaf read first, then deepcopy of the parent
    if carry == 1:
        x = _copy.copy(x)
    elif carry == 2:
        x = _copy.deepcopy(x)
    env.check("received-empty-message-is-present", betterproto.serialized_on_wire(x) == received, way)
    t = env.int("t", 0, 63)
    outer = mod.M(leaf=x, t=t)
    if carry == 4:
        # reading a field of a sub-message nobody set creates it lazily; that must not make it present, in the copy either
        outer = mod.M(t=t) if not received else outer
        env.check("reading-does-not-set", outer.leaf.__len__() == 0)
    if carry >= 3:
        outer = _copy.deepcopy(outer)
    data = bytes(outer)
    env.observe("bytes", data)
    want = (sw.len_field(2, b"") if received else b"") + (sw.field(3, "uint32", t) if t != 0 else b"")
    env.check("embedded-received-empty-message-is-emitted", data == want, way)
    back = mod.M().parse(data)
    env.check("embedded-presence-survives-the-round-trip", betterproto.serialized_on_wire(back.leaf) == received, way)


def units(tier):
    u = []
    cats = []
    for kind in catalogue.S1_KINDS:
        for label in catalogue.LABELS:
            if kind.startswith("wrap:") and label in ("optional", "repeated"):
                continue
            cats.append(("s1 %s %s" % (kind, label), ["s1", kind, label]))
    cats += [("map %s->%s" % (k, v), ["s1map", k, v]) for k, v in (("int32", "int32"), ("string", "message"), ("bool", "bytes"))]
    cats += [("s2 " + n, ["s2", n]) for n in ("oneofs", "nested", "optionals", "wrappers", "mixed", "packed", "emptymsg", "nested-oneof")]
    for name, c in cats:
        u.append(("fresh[%s]" % name, h_fresh, {"cat": c}))
        for way in WAYS:
            u.append(("presence[%s | %s]" % (name, way), h_presence, {"cat": c, "way": way}))
    for name, c in cats:
        if name.startswith("s2 ") or "message" in name:
            for way, carry in (("parse", "deepcopy"), ("from_dict-class", "deepcopy"), ("attr", "copy")):
                u.append(("presence[%s | %s, then %s]" % (name, way, carry), h_presence, {"cat": c, "way": way, "carry": carry}))
    u.append(("received-empty-message[every decoding entry point]", h_received_empty, {}))
    return u


BUDGET = {"quick": 200, "thorough": 1200}
UNIT_PATH_CAP = {"quick": 400, "thorough": 20000}
BOUNDS = {
    "quick": "catalogue S1 + 3 map shapes + 6 S2 shapes; every field in {never set, set to the type default, set to a symbolic non-default value (one byte wide)} "
    "x {constructor, attribute assignment, parse of the spec encoding, from_dict class and instance form; for shapes holding messages also parse / from_dict followed by deepcopy and attribute assignment followed by copy, taken before the first read}; all fields of a shape vary together; 400 paths per unit",
    "thorough": "same, 20000 paths per unit",
}
OUTSIDE = "wide values (C01), containers longer than 1, Timestamp/Duration"
