"""C10 Delimited streams read back intact; truncation never yields a partial message."""
from .. import catalogue, shapes, sym
from ..shapes import F, Catalogue, Shape, STD_ENUM, Bounds
from ..spec import specmsg as sm, specwire as sw
from .c09 import gen_unknown

WARMUP = True  # a concrete first use of the harness before each path (vf/explore.py: WarmEnv)
PROPERTY = "C10"


def _n(f):
    f.narrow = True
    return f


def stream_catalogue():
    a = Shape("A", [_n(F("a", 1, "int32")), _n(F("s", 2, "string"))])
    b = Shape("B", [F("r", 1, "sint32", "repeated"), F("sub", 2, "message", msg="A"), _n(F("o", 3, "uint32", "optional"))])
    e = Shape("Empty", [])
    aold = Shape("AOld", [_n(F("a", 1, "int32"))])
    bold = Shape("BOld", [F("sub", 2, "message", msg="A")])
    return Catalogue("c10-stream", [a, b, e, aold, bold], [STD_ENUM])


OLDER = {"A": "AOld", "B": "BOld", "Empty": "Empty"}


def _messages(env, cat, mod, types, with_unknown):
    b = Bounds(rep=1, mapn=1, strlen=1, depth=1, narrow=True)
    vals, msgs = [], []
    for i, t in enumerate(types):
        v = shapes.gen_value(env, cat, t, "m%d." % i, b)
        if with_unknown and i == 0:
            if env.choose("m0.unknown", 2):
                v["__unknown__"] = gen_unknown(env, "m0.unk", [f.number for f in cat.shapes[t].fields])
        vals.append(v)
        msgs.append(sm.to_bp(mod, cat, t, v))
    return vals, msgs


def h_stream(env):
    import betterproto

    cat = stream_catalogue()
    mod = shapes.build_bp(cat)
    types = env.params["types"]
    vals, msgs = _messages(env, cat, mod, types, env.params.get("unknown", False))
    stream = betterproto.BytesIO()
    ends = []
    for m in msgs:
        m.dump(stream, betterproto.SIZE_DELIMITED)
        ends.append(stream.tell())
    data = stream.getvalue()
    env.observe("stream", data)
    env.check("framing==varint-length-prefix", data == sw.cat(*[sw.length_prefixed(bytes(m)) for m in msgs]))
    older = env.params.get("older", False)
    mode = env.params["mode"]
    if mode == "intact":
        rd = betterproto.BytesIO(data)
        for i, t in enumerate(types):
            cls = getattr(mod, OLDER[t] if older else t)
            got = cls().load(rd, betterproto.SIZE_DELIMITED)
            env.check("consumed-exactly-its-message", rd.tell() == ends[i])
            if older:
                env.check("older-reader-re-emits", bytes(got) is not None)
                back = getattr(mod, t)().parse(bytes(got))
                env.check("read-back==written", back == msgs[i])
            else:
                env.check("read-back==written", got == msgs[i])
                env.check("read-back-bytes", bytes(got) == bytes(msgs[i]))
        env.check("stream-exhausted", len(rd.read()) == 0)
        if not env.sym:
            import io

            from google.protobuf import proto

            ref = shapes.build_ref(cat)
            rio = io.BytesIO(bytes(data))
            for i, t in enumerate(types):
                r = proto.parse_length_prefixed(ref[t], rio)
                env.check("witness:reference-reads-frame", r is not None and sm.canon_equal(cat, t, sm.canon_of_ref(cat, t, r), sm.canon_of_value(cat, t, vals[i]), unknown=False))
            out = io.BytesIO()
            for i, t in enumerate(types):
                proto.serialize_length_prefixed(sm.to_ref(ref, cat, t, {k: v for k, v in vals[i].items() if k != "__unknown__"}), out)
            rd = betterproto.BytesIO(out.getvalue())
            for i, t in enumerate(types):
                got = getattr(mod, t)().load(rd, betterproto.SIZE_DELIMITED)
                env.check("reference-frames-read-back", sm.canon_equal(cat, t, sm.canon_of_bp(cat, t, got), sm.canon_of_value(cat, t, vals[i]), unknown=False))
        return
    # truncation at every byte
    cut = env.choose("cut", len(data) + 1)
    rd = betterproto.BytesIO(data[:cut])
    for i, t in enumerate(types):
        cls = getattr(mod, OLDER[t] if older else t)
        try:
            got = cls().load(rd, betterproto.SIZE_DELIMITED)
        except Exception:
            env.check("raises-only-when-cut-inside-or-before", cut < ends[i])
            break
        if older:
            back = getattr(mod, t)().parse(bytes(got))
            env.check("returned-message-is-the-written-one", back == msgs[i], "message %d cut=%d end=%d" % (i, cut, ends[i]))
        else:
            env.check("returned-message-is-the-written-one", got == msgs[i], "message %d cut=%d end=%d" % (i, cut, ends[i]))
            env.check("returned-message-bytes", bytes(got) == bytes(msgs[i]))
        env.check("complete-message-available", cut >= ends[i], "message %d returned although the stream was cut at %d < %d" % (i, cut, ends[i]))


def h_frame(env):
    """one message of any catalogue shape written twice as a delimited frame: each frame is varint(len(bytes)) + bytes, and both are read back"""
    import betterproto

    from .. import shapes
    from ..spec import specmsg as sm, specwire as sw

    cat = catalogue.get(env.params["cat"])
    mod = shapes.build_bp(cat)
    val = shapes.gen_value(env, cat, "M", b=shapes.Bounds(rep=1, mapn=1, strlen=1, depth=2, narrow=True))
    m = sm.to_bp(mod, cat, "M", val)
    data = bytes(m)
    env.observe("bytes", data)
    out = betterproto.BytesIO()
    m.dump(out, betterproto.SIZE_DELIMITED)
    m.dump(out, betterproto.SIZE_DELIMITED)
    frame = sw.length_prefixed(data)
    env.check("frame==varint(len)+bytes", out.getvalue() == frame + frame)
    rd = betterproto.BytesIO(out.getvalue())
    a = mod.M().load(rd, betterproto.SIZE_DELIMITED)
    b = mod.M().load(rd, betterproto.SIZE_DELIMITED)
    env.check("both-frames-read-back", sym.sym_and(a == m, b == m, bytes(a) == data, bytes(b) == data))
    env.check("stream-consumed-exactly", rd.tell() == 2 * len(frame))


def units(tier):
    seqs = [["A"], ["Empty"], ["B"], ["A", "B"], ["Empty", "A"], ["B", "Empty"], ["A", "A"]]
    if tier == "thorough":
        seqs += [["A", "Empty", "B"], ["B", "A", "A"], ["Empty", "Empty", "A"]]
    u = []
    for types in seqs:
        for mode in ("intact", "cut"):
            for older in (False, True):
                for unk in (False, True):
                    if unk and (older or types[0] == "Empty" and False):
                        continue
                    name = "%s[%s%s%s]" % (mode, ",".join(types), " older-reader" if older else "", " +unknown" if unk else "")
                    u.append((name, h_stream, {"types": types, "mode": mode, "older": older, "unknown": unk}))
    from .c09 import h_long

    for kind in ("string", "message", "packed"):
        u.append(("long-payload[%s]" % kind, h_long, {"kind": kind}))
    from .c09 import h_len_after_edit

    for name in ("packed", "repmsg", "mapmsg"):
        u.append(("delimited-after-in-place-edit[s2 %s]" % name, h_len_after_edit, {"cat": ["s2", name]}))
    for name in ("optionals", "oneofs", "emptymsg", "nested-oneof", "mapmsg", "mixed", "wrappers"):
        u.append(("frame[s2 %s]" % name, h_frame, {"cat": ["s2", name]}))
    for kind in ("string", "bytes", "message", "enum", "double"):
        for label in ("optional", "oneof"):
            u.append(("frame[s1 %s %s]" % (kind, label), h_frame, {"cat": ["s1", kind, label]}))
    return u


BUDGET = {"quick": 200, "thorough": 1200}
UNIT_PATH_CAP = {"quick": 500, "thorough": 30000}
BOUNDS = {
    "quick": "sequences of 1-2 messages over types {A(int32,string), B(repeated sint32, nested A, optional uint32), Empty}; values one byte wide, strings <= 1 code point, "
    "repeated <= 1; optionally one unknown field in the first message; reader schema equal or older; every cut point 0..len(stream)",
    "thorough": "as quick plus three sequences of 3 messages, 30000 paths per unit",
}
OUTSIDE = "longer sequences, wide integers (length prefixes above 127 bytes), real file objects"
