"""C13 Cross-package type references in generated code resolve to the right class (reference / alias computation)."""
import z3

from .. import sym
from ..explore import region_func
from ..spec import pyimport
from ..symstr import SymStr
from ..sym import B, mkb

PROPERTY = "C13"
FILES = ["betterproto/compile/importing.py", "betterproto/compile/naming.py", "betterproto/casing.py", "betterproto/plugin/parser.py"]

TYPES = [("Msg", "Msg"), ("Outer.Inner", "OuterInner"), ("Kind", "Kind"), ("Outer.Kind", "OuterKind")]


def component(env, name, n):
    """a package name component: [a-z][a-z0-9_]* of length n"""
    s = env.str(name, n, lo=0x30, hi=0x7A)
    if env.sym:
        for i, c in enumerate(s.items):
            lower = z3.And(z3.UGE(c, 97), z3.ULE(c, 122))
            env.assume(mkb(lower if i == 0 else z3.Or(lower, z3.And(z3.UGE(c, 48), z3.ULE(c, 57)), c == 95)))
    else:
        import re

        if not re.fullmatch(r"[a-z][a-z0-9_]*", s):
            env.assume(False)
    return s


def package(env, name, maxdepth, maxlen):
    depth = env.choose(name + "#depth", maxdepth + 1)
    comps = []
    for i in range(depth):
        n = 1 + env.choose("%s[%d]#len" % (name, i), maxlen)
        comps.append(component(env, "%s[%d]" % (name, i), n))
    return comps


def join(parts, sep="."):
    out = None
    for p in parts:
        out = p if out is None else out + sep + p
    return out if out is not None else ""


def list_eq(a, b):
    if len(a) != len(b):
        return False
    return sym.sym_and(*[_seq(x, y) for x, y in zip(a, b)])


def _seq(x, y):
    r = x == y
    return False if r is NotImplemented else r


def reference(env, current, source, tname, imports):
    from betterproto.compile.importing import get_type_reference
    from betterproto.plugin.typing_compiler import DirectImportTypingCompiler

    source_type = "." + (join(source) + "." if source else "") + tname
    ref = get_type_reference(package=join(current), imports=imports, source_type=source_type, typing_compiler=DirectImportTypingCompiler())
    return ref


def check_reference(env, label, current, source, tname, pyname, ref, imports):
    """the annotation string + import lines denote class `pyname` of the module of package `source`"""
    env.check(label + ":quoted-forward-reference", len(ref) >= 2 and _seq(ref[0], '"') and _seq(ref[-1], '"'))
    inner = ref[1:-1]
    try:
        r = pyimport.resolve(inner, sorted(imports, key=lambda s: 0) if False else list(imports), current)
    except ImportError as e:
        env.check(label + ":import-within-top-level-package", False, str(e))
        return None
    same_pkg = list_eq(current, source)
    if r[0] == "local":
        env.check(label + ":denotes-target-class", sym.sym_and(same_pkg, _seq(r[1], pyname)), "unimported name for another package")
    elif r[0] == "module":
        env.check(label + ":denotes-target-class", sym.sym_and(list_eq(r[1], source), r[2] is not None and _seq(r[2], pyname)))
    elif r[0] == "member":
        base, name, attr = r[1], r[2], r[3]
        if attr is None:
            # `from base import Type as alias`: the class itself
            env.check(label + ":denotes-target-class", sym.sym_and(list_eq(base, source), _seq(name, pyname)))
        else:
            env.check(label + ":denotes-target-class", sym.sym_and(list_eq(list(base) + [name], source), _seq(attr, pyname)))
    else:
        env.check(label + ":alias-unambiguous", False, "alias bound by two import lines")
        return None
    return r


def h_pair(env):
    """one reference from package `current` to a type of package `source` (any relative position, name coincidences included)"""
    from betterproto.compile import naming

    current = package(env, "cur", env.params["depth"], env.params["len"])
    source = package(env, "src", env.params["depth"], env.params["len"])
    tname, _ = TYPES[env.choose("type", len(TYPES))]
    pyname = naming.pythonize_class_name(tname)
    imports = set()
    ref = reference(env, current, source, tname, imports)
    env.observe("ref", ref)
    env.observe("imports", sorted(str(i) if not getattr(i, "_vf_sym", False) else i for i in imports) if not env.sym else [i for i in imports])
    check_reference(env, "ref", current, source, tname, pyname, ref, imports)
    aliases = []
    for stmt in imports:
        alias, _t = pyimport.bind(stmt, current)
        aliases.append(alias)
        env.check("alias-is-identifier", alias.isidentifier() if hasattr(alias, "isidentifier") else True)
    if not env.sym:
        # the same reference resolved by the runtime itself in a real package tree on disk (native only: the import system is C code).
        # One field is called like the import alias: a field name must not get in the way of the module-level name.
        import keyword

        from ..spec.pyruntime import resolve_at_runtime

        import zlib

        every = 1 if (env.params["depth"] <= 2 and env.tier == "quick") else (4 if env.tier == "quick" else 16)
        if zlib.crc32(repr(sorted(env.given.items())).encode()) % every:
            return  # writing and importing a package tree costs milliseconds: beyond the smallest unit a fixed 1-in-k sample of the witnesses is resolved at run time
        if any(keyword.iskeyword(c) for c in list(current) + list(source)):
            return  # `from . import in` is not Python: package components that are keywords are outside the claim (recorded in DESIGN.md)
        names = ("f",) + tuple(a for a in aliases[:1] if a.isidentifier() and not keyword.iskeyword(a))
        got, target = resolve_at_runtime([str(c) for c in current], [str(c) for c in source], "enum" if tname.endswith("Kind") else "message", str(pyname), str(ref), [str(i) for i in imports], names)
        for fname, cls in got.items():
            env.check("witness:runtime-resolves-to-the-target-class", cls is target, "field %s: %r" % (fname, cls))


def _relation(cur, pkg):
    """(kind, alias) the way compile/importing.py names the import of package pkg from package cur (independent re-computation for regions)"""
    from betterproto.casing import safe_snake_case

    n = 0
    while n < min(len(cur), len(pkg)) and B(_seq(cur[n], pkg[n])):
        n += 1
    if n == len(cur) and n == len(pkg):
        return "same", None
    if n == len(cur):
        rest = pkg[n:]
        return "descendant", (rest[0] if len(rest) == 1 else join(rest, "_"))
    if n == len(pkg):
        up = len(cur) - len(pkg)
        return "ancestor", ("_" + "_" * up + pkg[-1] + "__") if pkg else None
    up = len(cur) - n
    return "cousin", "_" * up + safe_snake_case(join(pkg[n:], ".")) + "__"


@region_func
def c13_alias_clash(env):
    """two different packages imported into one module under the same alias: an ancestor alias (_<dots>name__) coinciding with a cousin alias
    (<dots>snake(path)__), or two descendant / cousin paths that differ only in '.' vs '_' (b.c and b_c both become b_c)"""
    cur, a, b = env.aux["cur"], env.aux["a"], env.aux["b"]
    ka, aa = _relation(cur, a)
    kb, ab = _relation(cur, b)
    if aa is None or ab is None:
        return False
    if B(list_eq(a, b)):
        return False
    return _seq(aa, ab)


def h_two(env):
    """two references from the same module: both still resolve when all import lines coexist (aliases do not clash)"""
    from betterproto.compile import naming

    current = package(env, "cur", env.params["depth"], env.params["len"])
    a = package(env, "a", env.params["depth"], env.params["len"])
    b = package(env, "b", env.params["depth"], env.params["len"])
    env.aux.update(cur=current, a=a, b=b)
    imports = set()
    ra = reference(env, current, a, "Msg", imports)
    rb = reference(env, current, b, "Other", imports)
    check_reference(env, "first", current, a, "Msg", "Msg", ra, imports)
    check_reference(env, "second", current, b, "Other", "Other", rb, imports)


def h_wellknown(env):
    """well-known types map to the bundled classes / python types"""
    from betterproto.compile.importing import get_type_reference
    from betterproto.plugin.typing_compiler import DirectImportTypingCompiler

    special = [None, ["google"], ["google", "api"], ["google", "protobuf", "compiler"], ["google", "protobuf", "compiler", "x"], ["google", "protobufx"], ["x", "google", "protobuf"]]
    which = env.choose("cur#special", len(special))
    # a symbolic short package path, or one of the packages around google.protobuf (only google.protobuf itself compiles the well-known types)
    current = package(env, "cur", 2, 2) if special[which] is None else list(special[which])
    wk = [("Timestamp", "datetime"), ("Duration", "timedelta"), ("Int32Value", "Optional[int]"), ("StringValue", "Optional[str]"), ("BytesValue", "Optional[bytes]"),
          ("BoolValue", "Optional[bool]"), ("DoubleValue", "Optional[float]"), ("Any", None), ("Struct", None)]  # fmt: skip
    name, expect = wk[env.choose("wk", len(wk))]
    imports = set()
    ref = get_type_reference(package=join(current), imports=imports, source_type=".google.protobuf." + name, typing_compiler=DirectImportTypingCompiler())
    if expect is not None:
        env.check("well-known-python-type", _seq(ref, expect), repr(ref))
        env.check("no-import-needed", len(imports) == 0)
    else:
        r = check_reference(env, "wk", current, ["betterproto", "lib", "google", "protobuf"], name, name, ref, imports)
    # unwrap=False keeps the wrapper message class of the bundled library
    imports2 = set()
    ref2 = get_type_reference(package=join(current), imports=imports2, source_type=".google.protobuf." + name, typing_compiler=DirectImportTypingCompiler(), unwrap=False)
    check_reference(env, "wk-raw", current, ["betterproto", "lib", "google", "protobuf"], name, name, ref2, imports2)


def type_ident(env, name, n):
    """a proto type name that starts with an upper-case letter: [A-Z][A-Za-z0-9_]* of length n.  (compile/importing.py tells packages from
    types by the first capital letter; the property quantifies over package paths and kinds of types, not over unconventional type names,
    so a lower-case or underscore-initial message name is outside the claim)"""
    from .c19 import ident

    s = ident(env, name, n)
    if env.sym:
        env.assume(sym.mkb(z3.And(z3.UGE(s.items[0], 65), z3.ULE(s.items[0], 90))))
    else:
        env.assume("A" <= s[0] <= "Z")
    return s


def h_definition(env):
    """the two code sites that have to agree: the name under which the plugin *defines* the class of a nested type (plugin/parser.traverse
    flattens Outer.Inner, models.py pythonizes it) and the name by which a reference *denotes* it (compile/importing.get_type_reference);
    type names symbolic, nesting depth 1..2, same package and from another package"""
    from betterproto.compile import naming
    from betterproto.lib.google.protobuf import DescriptorProto, EnumDescriptorProto, FileDescriptorProto
    from betterproto.plugin import parser

    outer = type_ident(env, "outer", 1 + env.choose("outer#len", env.params["len"]))
    inner = type_ident(env, "inner", 1 + env.choose("inner#len", env.params["len"]))
    leaf_is_enum = env.choose("leaf", 2)
    leaf = EnumDescriptorProto(name=inner) if leaf_is_enum else DescriptorProto(name=inner)
    top = DescriptorProto(name=outer, enum_type=[leaf]) if leaf_is_enum else DescriptorProto(name=outer, nested_type=[leaf])
    f = FileDescriptorProto(name="x.proto", package="p.q", message_type=[top])
    names = [item.name for item, _path in parser.traverse(f)]
    env.check("definition:one-class-per-type", len(names) == 2)
    defined_outer = naming.pythonize_class_name(names[0])
    defined_inner = naming.pythonize_class_name(names[1])
    env.observe("defined", [defined_outer, defined_inner])
    for cur in (["p", "q"], ["p"]):
        for tname, defined in ((outer, defined_outer), (outer + "." + inner, defined_inner)):
            imports = set()
            ref = reference(env, cur, ["p", "q"], tname, imports)
            check_reference(env, "definition-vs-reference", cur, ["p", "q"], tname, defined, ref, imports)


def units(tier):
    u = []
    u.append(("definition-vs-reference[nested, names len<=2]", h_definition, {"len": 2}))
    if tier == "thorough":
        u.append(("definition-vs-reference[nested, names len<=3]", h_definition, {"len": 3}))
    u.append(("pair[depth<=2 len<=2]", h_pair, {"depth": 2, "len": 2}))
    u.append(("pair[depth<=3 len<=2]", h_pair, {"depth": 3, "len": 2}))
    u.append(("two-references[depth<=2 len=1]", h_two, {"depth": 2, "len": 1}))
    u.append(("two-references[depth<=2 len<=2]", h_two, {"depth": 2, "len": 2}))
    if tier == "thorough":
        u.append(("pair[depth<=3 len<=3]", h_pair, {"depth": 3, "len": 3}))
        u.append(("two-references[depth<=3 len<=2]", h_two, {"depth": 3, "len": 2}))
    u.append(("well-known", h_wellknown, {}))
    return u


BUDGET = {"quick": 240, "thorough": 1200}
UNIT_PATH_CAP = {"quick": 12000, "thorough": 300000}
BOUNDS = {
    "quick": "ordered pairs of package paths of depth 0..2 with components [a-z][a-z0-9_]* of length 1..2 (every character symbolic, so ancestor / descendant / sibling / cousin / "
    "same / root shapes and name coincidences such as a.b_c vs a_b.c are solver-found), and of depth 0..3 (capped at 12000 paths); referenced type in {top-level message, "
    "nested message, enum, nested enum}; two coexisting references from one module (depth <= 2, components of length 1..2); well-known types; definition side "
    "(plugin/parser.traverse + pythonize_class_name) against the reference side for nested messages / enums whose names are any [A-Z][A-Za-z0-9_]* of length 1..2",
    "thorough": "depth 0..3 with components of length 1..3; two references of depth 0..3; 300000 paths per unit",
}
OUTSIDE = ("claimed in part: the reference / alias computation (compile/importing.py) and the flattened class name of nested types (plugin/parser.traverse) are decided; type names that "
           "do not start with a capital letter (importing.py then takes the enclosing message for a package: `.p.q.ab.Cd` is imported from package p.q.ab) are outside the quantifier; the Jinja template's placement of imports_end, circular-import "
           "tolerance, __init__.py creation and rpc input/output sites (which call the same function) are not decided symbolically")
