"""C14 Observers are pure; copy, deepcopy and pickle are faithful and independent."""
import copy as _copy

from .. import catalogue, shapes, sym
from ..shapes import Bounds
from ..spec import specjson as sj, specmsg as sm, specwire as sw
from .c06 import presence_report
from .c09 import gen_unknown

WARMUP = True  # a concrete first use of the harness before each path (vf/explore.py: WarmEnv)
PROPERTY = "C14"
B1 = Bounds(rep=1, mapn=1, strlen=1, depth=2, narrow=True)

OBSERVERS = ["read-all", "bytes", "len", "eq", "bool", "repr", "to_dict", "to_dict-snake", "to_json", "to_pydict", "to_dict-defaults"]
COPIERS = ["copy", "deepcopy", "pickle"]
ORIGINS = ["constructed", "decoded", "from_dict"]


def snapshot(cat, m):
    """what a message encodes to, reports as present and selects"""
    import betterproto

    s = cat.shapes["M"]
    return (bytes(m), presence_report(cat, "M", m), {g: betterproto.which_one_of(m, g)[0] for g in s.groups()})


def snap_equal(a, b):
    return sym.sym_and(a[0] == b[0], a[1] == b[1], a[2] == b[2])


def read_all(cat, shape, m, depth=0):
    s = cat.shapes[shape]
    for f in s.fields:
        try:
            v = getattr(m, f.name)
        except AttributeError:
            continue
        if f.kind == "message" and not f.wraps and v is not None and depth < 2:
            if f.label == "repeated":
                for x in v:
                    read_all(cat, f.msg, x, depth + 1)
            elif f.label == "map":
                for x in v.values():
                    read_all(cat, f.msg, x, depth + 1)
            else:
                read_all(cat, f.msg, v, depth + 1)


def observe(env, cat, mod, m, what):
    import betterproto

    if what == "read-all":
        read_all(cat, "M", m)
    elif what == "bytes":
        bytes(m)
    elif what == "len":
        m.__len__()
    elif what == "eq":
        m == mod.M()
        m == m
    elif what == "bool":
        bool(m)
    elif what == "repr":
        if env.sym:
            m.__repr__()  # formatting of symbolic leaves is stubbed; purity is what is observed
        else:
            repr(m)
    elif what == "to_dict":
        m.to_dict()
    elif what == "to_dict-snake":
        m.to_dict(casing=betterproto.Casing.SNAKE)
    elif what == "to_dict-defaults":
        m.to_dict(include_default_values=True)
    elif what == "to_json":
        m.to_json()  # symbolically through the model of json (vf/symjson.py)
    elif what == "to_pydict":
        m.to_pydict()


def make_by_history(env, cat, mod):
    """a message that has a history behind it: built with one or two members of a oneof group given to the constructor, then possibly an
    assignment of a member, then possibly another member decoded into the existing instance"""
    from .c07 import _bp, _member_value

    s = cat.shapes["M"]
    g, members = sorted(s.groups().items())[0]

    def value(f, tag):
        return _bp(mod, cat, f, _member_value(env, cat, f, "h.%s.%s" % (tag, f.name)))

    i = env.choose("h.first", len(members))
    j = env.choose("h.second", len(members) + 1)
    kw = {members[i].name: value(members[i], "ctor1")}
    if j < len(members) and j != i:
        kw[members[j].name] = value(members[j], "ctor2")
    m = mod.M(**kw)
    k = env.choose("h.assign", len(members) + 1)
    if k < len(members):
        setattr(m, members[k].name, value(members[k], "assign"))
    p = env.choose("h.parse", len(members) + 1)
    if p < len(members):
        m.parse(bytes(mod.M(**{members[p].name: value(members[p], "parse")})))
    return None, m


def make(env, cat, mod, origin):
    if origin == "history":
        return make_by_history(env, cat, mod)
    val = shapes.gen_value(env, cat, "M", b=B1)
    if origin == "constructed":
        return val, sm.to_bp(mod, cat, "M", val)
    if origin == "decoded":
        if env.choose("unknown", 2):
            val["__unknown__"] = gen_unknown(env, known=[f.number for f in cat.shapes["M"].fields])
        return val, mod.M().parse(sym.wire(sm.spec_encode(cat, "M", val)))
    d = sj.to_json(cat, "M", val, native_map_keys=True, native_wrappers=True, native_map_values=True)
    return val, mod.M.from_dict(d)


def h_observers(env):
    """a sequence of read-only operations never changes what the message encodes to / reports"""
    import sys

    limit = sys.getrecursionlimit()
    if env.params["cat"] == ["s2", "recursive"]:
        sys.setrecursionlimit(1000)  # CPython's default, for the whole path (the symbolic workers otherwise run with 5000)
    try:
        _observers(env)
    finally:
        sys.setrecursionlimit(limit)


def _observers(env):
    cat = catalogue.get(env.params["cat"])
    mod = shapes.build_bp(cat)
    val, m = make(env, cat, mod, env.params["origin"])
    before = snapshot(cat, m)
    env.observe("bytes", before[0])
    twin = mod.M().parse(before[0])
    for i in range(env.params["n"]):
        what = env.params.get("observer") if i == 0 and env.params.get("observer") else OBSERVERS[env.choose("obs%d" % i, len(OBSERVERS))]
        try:
            observe(env, cat, mod, m, what)
        except Exception as e:
            if type(e).__name__ in ("Unsupported", "EngineLimit"):
                raise
            # the property is about purity, not totality: a raising observer must still leave the message alone
            what = what + "(raised)"
        name = what.replace("(raised)", "")
        try:
            after = snapshot(cat, m)
            same = m == twin
        except RecursionError:
            # the observer left the message in a state in which it can no longer be encoded or compared
            env.check("still-encodes-and-compares-after-" + name, False, "%s, then bytes() / == raise RecursionError" % what)
            return
        env.check("still-encodes-and-compares-after-" + name, True)
        env.check("unchanged-after-" + name, snap_equal(before, after), "%s: presence before %r after %r" % (what, before[1], after[1]))
        env.check("still-equal-to-its-decoded-twin", same)


def mutate(env, cat, mod, c):
    """a visible mutation of a message: decoding further (unknown) fields into it, or the first mutable position found"""
    s = cat.shapes["M"]
    groups = list(s.groups())
    choice = env.choose("mutation", 3 if groups else 2)
    if choice == 0:
        c.parse(sym.wire(gen_unknown(env, "more", known=[f.number for f in s.fields])))
        return True
    if choice == 2:
        # select another member of a oneof group on the copy (the selection table is mutable state of the message)
        import betterproto

        for g in groups:
            cur = betterproto.which_one_of(c, g)[0]
            for f in s.fields:
                if f.group == g and f.name != cur and f.kind in ("int32", "sint32", "uint32", "int64", "string", "bytes", "bool"):
                    setattr(c, f.name, {"string": "zz", "bytes": b"zz", "bool": True}.get(f.kind, 41))
                    return True
        return False
    for f in s.fields:
        if f.group:
            continue
        if f.label == "repeated":
            lst = getattr(c, f.name)
            if f.kind == "message":
                if lst and cat.shapes[f.msg].fields:
                    lst[0].x = 41
                    return True
                if not cat.shapes[f.msg].fields:
                    lst.append(getattr(mod, f.msg)())  # a type without fields: one more element is the visible change
                    return True
                continue
            lst.append({"string": "zz", "bytes": b"zz", "bool": True, "double": 1.5, "float": 1.5}.get(f.kind, 41) if f.kind != "enum" else getattr(mod, f.enum).try_value(1))
            return True
        if f.label == "map":
            d = getattr(c, f.name)
            if f.kind == "message":
                if cat.shapes[f.msg].fields:
                    for k in d:
                        d[k].x = 41
                        return True
                continue
            continue
        if f.kind == "message" and not f.wraps and f.label == "singular":
            sub = getattr(c, f.name)
            if not cat.shapes[f.msg].fields:
                continue
            inner = cat.shapes[f.msg].fields[0]
            if inner.kind in ("int32", "sint32", "uint32"):
                setattr(sub, inner.name, 41)
                return True
    return False


def h_copies(env):
    """copy / deepcopy / pickle are equal, byte-identical and (deep, pickle) independent"""
    cat = catalogue.get(env.params["cat"])
    mod = shapes.build_bp(cat)
    val, m = make(env, cat, mod, env.params["origin"])
    how = env.params["copier"]

    def do_copy():
        if how == "copy":
            return _copy.copy(m)
        if how == "deepcopy":
            return _copy.deepcopy(m)
        f, args = m.__reduce__()
        return f(*args)

    if env.params.get("observe_first"):
        before = snapshot(cat, m)
        read_all(cat, "M", m)
        c = do_copy()
    else:
        # copy a message nothing has looked at yet (no lazily materialised defaults), then take the snapshots
        c = do_copy()
        before = snapshot(cat, m)
    env.observe("bytes", before[0])
    if how == "pickle" and not env.sym:
        import pickle

        c2 = pickle.loads(pickle.dumps(m))
        env.check("pickle-module-agrees-with-reduce", bytes(c2) == bytes(c) and c2 == c)
    env.check("copy==original", c == m)
    after = snapshot(cat, c)
    env.check("copy-encodes-identically", after[0] == before[0])
    env.check("copy-reports-same-presence", after[1] == before[1], "original %r copy %r" % (before[1], after[1]))
    env.check("copy-selects-same-oneof", after[2] == before[2])
    env.check("original-untouched-by-copying", snap_equal(snapshot(cat, m), before))
    if how in ("deepcopy", "pickle"):
        if mutate(env, cat, mod, c):
            env.check("mutating-the-copy-leaves-the-original", snap_equal(snapshot(cat, m), before))


def units(tier):
    u = []
    cats = [("s2 " + n, ["s2", n]) for n in ("oneofs", "nested", "optionals", "mapmsg", "packed", "recursive", "emptymsg")]
    cats += [("s1 bytes singular", ["s1", "bytes", "singular"]), ("map bool->bytes", ["s1map", "bool", "bytes"]), ("s1 wrap:double singular", ["s1", "wrap:double", "singular"]),
             ("s1 float repeated", ["s1", "float", "repeated"])]
    if tier == "thorough":
        cats += [("s2 " + n, ["s2", n]) for n in ("repmsg", "wrappers")]
        cats += [("s1 %s %s" % (k, l), ["s1", k, l]) for k, l in (("message", "singular"), ("string", "optional"), ("double", "repeated"), ("enum", "oneof"))]
        cats += [("map string->message", ["s1map", "string", "message"])]
    for name, c in cats:
        for origin in ORIGINS:
            for ob in OBSERVERS:
                u.append(("observer[%s | %s | %s]" % (name, origin, ob), h_observers, {"cat": c, "origin": origin, "n": 1, "observer": ob}))
            if tier == "thorough" or name in ("s2 oneofs", "s2 nested"):
                u.append(("observers[%s | %s | any 2]" % (name, origin), h_observers, {"cat": c, "origin": origin, "n": 2}))
            for cp in COPIERS:
                u.append(("copy[%s | %s | %s]" % (name, origin, cp), h_copies, {"cat": c, "origin": origin, "copier": cp}))
                u.append(("copy[%s | %s | %s after reads]" % (name, origin, cp), h_copies, {"cat": c, "origin": origin, "copier": cp, "observe_first": True}))
    for cp in COPIERS:
        u.append(("copy[s2 oneofs | after a history of constructor / assignment / decode-into | %s]" % cp, h_copies, {"cat": ["s2", "oneofs"], "origin": "history", "copier": cp}))
    u.append(("observers[s2 oneofs | after a history | any 1]", h_observers, {"cat": ["s2", "oneofs"], "origin": "history", "n": 1}))
    return u


BUDGET = {"quick": 300, "thorough": 1200}
UNIT_PATH_CAP = {"quick": 80, "thorough": 20000}
BOUNDS = {
    "quick": "8 shapes x {constructed, decoded from spec bytes (optionally with an unknown field), loaded from a dict} x each of 11 observers (and any 2 observers "
    "in sequence for two shapes) ; x {copy, deepcopy, pickle (via __reduce__)} with and without prior lazy reads, then a mutation of the deep copy (unknown fields decoded into it, an in-place edit, or another member of a oneof group selected); values one "
    "byte wide, containers <= 1, nesting <= 2; 80 paths per unit",
    "thorough": "15 shapes; any 2 observers in sequence for every shape; 20000 paths per unit",
}
OUTSIDE = "repr/to_json text for symbolic leaves (C code; executed at witnesses), Timestamp/Duration, longer observer sequences"
