"""C02 Wire interoperability with the reference protobuf implementation."""
from .. import catalogue, shapes, sym
from ..spec import specmsg as sm, specwire as sw
from .c01 import bounds
from .c09 import gen_unknown

WARMUP = True  # a concrete first use of the harness before each path (vf/explore.py: WarmEnv)
PROPERTY = "C02"

KNOBS = ["canonical", "reverse-order", "rotate-order", "unpacked", "split-packed", "pad1", "pad2", "pad-max", "duplicate", "inject-unknown"]


def _perm(kind, n):
    if kind == "reverse-order":
        return list(range(n - 1, -1, -1))
    return list(range(1, n)) + [0] if n else []


def _dup_candidates(cat, val):
    """fields that may legally occur twice with last-wins: singular scalars / enums and oneof members"""
    s = cat.shapes["M"]
    return [f for f in s.fields if f.name in val and f.label in ("singular", "optional") and f.kind != "message" and not f.wraps]


def h_encode(env):
    """bytes(m) decoded by the strict spec decoder (and by the reference at the witness) denote m"""
    cat = catalogue.get(env.params["cat"])
    mod = shapes.build_bp(cat)
    val = shapes.gen_value(env, cat, "M", b=bounds(env.tier, env.params))
    m = sm.to_bp(mod, cat, "M", val)
    data = bytes(m)
    env.observe("bytes", data)
    exp = sm.canon_of_value(cat, "M", val)
    try:
        got = sm.spec_decode(cat, "M", data)
    except sw.SpecDecodeError as e:
        env.check("spec-decoder-accepts", False, str(e))
        return
    env.check("spec-decoder-accepts", True)
    env.check("spec-view==value", sm.canon_equal(cat, "M", got, exp), "groups=%r" % (got["g"],))
    if not env.sym:
        ref = shapes.build_ref(cat)
        try:
            r = ref["M"].FromString(bytes(data))
        except Exception as e:
            env.check("witness:reference-accepts", False, repr(e))
            return
        env.check("witness:reference-view==value", sm.canon_equal(cat, "M", sm.canon_of_ref(cat, "M", r), exp))


def h_decode(env):
    """every legal re-encoding of a message, produced by the spec encoder, is decoded to the same value"""
    cat = catalogue.get(env.params["cat"])
    mod = shapes.build_bp(cat)
    knob = env.params["knob"]
    val = shapes.gen_value(env, cat, "M", b=bounds(env.tier, env.params))
    s = cat.shapes["M"]
    k = sm.Knobs()
    if knob in ("reverse-order", "rotate-order"):
        k.order = _perm(knob, len(s.fields))
    elif knob == "unpacked":
        k.unpacked = {f.name for f in s.fields if f.label == "repeated"}
    elif knob == "split-packed":
        for f in s.fields:
            if f.label == "repeated" and f.kind in sw.PACKABLE and f.name in val and len(val[f.name]) >= 1:
                k.split[f.name] = env.choose("split." + f.name, len(val[f.name]) + 1)
    elif knob in ("pad1", "pad2", "pad-max"):
        k.pad = {"pad1": 1, "pad2": 2, "pad-max": 9}[knob]  # pad-max: value varints grow to the legal maximum of 10 bytes, tags / lengths to 5
    elif knob == "duplicate":
        c = _dup_candidates(cat, val)
        if not c:
            env.cut("no duplicable field set on this path")
        f = c[env.choose("dup.which", len(c))]
        k.dup[f.name] = shapes.gen_scalar(env, "dup.value", f.kind, shapes.Bounds(narrow=True))
        # a different member of the same oneof group first (last one wins)
    elif knob == "inject-unknown":
        pos = env.choose("inject.pos", len(s.fields) + 1)
        k.inject = [(pos, gen_unknown(env, known=[f.number for f in s.fields]))]
    wire = sym.wire(sm.spec_encode(cat, "M", val, k))
    env.observe("wire", wire)
    exp = sm.canon_of_value(cat, "M", val)
    if knob == "inject-unknown":
        exp["u"] = k.inject[0][1]
    m = mod.M().parse(wire)
    got = sm.canon_of_bp(cat, "M", m)
    env.check("decoded==value", sm.canon_equal(cat, "M", got, exp), "groups=%r" % (got["g"],))
    if not env.sym:
        ref = shapes.build_ref(cat)
        try:
            r = ref["M"].FromString(bytes(wire))
        except Exception as e:
            env.check("oracle:reference-accepts-re-encoding", False, repr(e))
            return
        env.check("oracle:reference-view-of-re-encoding==value", sm.canon_equal(cat, "M", sm.canon_of_ref(cat, "M", r), exp, unknown=False))
        # reference serialization fed to betterproto
        rr = sm.to_ref(ref, cat, "M", val)
        m3 = mod.M().parse(rr.SerializeToString())
        exp2 = sm.canon_of_value(cat, "M", val)
        env.check("reference-bytes-decoded==value", sm.canon_equal(cat, "M", sm.canon_of_bp(cat, "M", m3), exp2))


def h_oneof_dup(env):
    """several members of one oneof group on the wire, any order: the last one wins"""
    cat = catalogue.get(["s2", "oneofs"])
    mod = shapes.build_bp(cat)
    s = cat.shapes["M"]
    members = s.groups()["g"]
    b = shapes.Bounds(narrow=True, strlen=1)
    n = 2 + env.choose("count", 2)
    wire = sym.SymBytes([])
    last = None
    for i in range(n):
        f = members[env.choose("member%d" % i, len(members))]
        v = shapes._gen_one(env, cat, f, "v%d" % i, b, 1, True)
        wire = wire + sm._enc_field(cat, f, v, sm.Knobs(), force=True)
        last = (f, v)
    wire = sym.wire(wire)
    m = mod.M().parse(wire)
    exp = sm.canon_of_value(cat, "M", {last[0].name: last[1]})
    got = sm.canon_of_bp(cat, "M", m)
    env.check("last-member-wins", sm.canon_equal(cat, "M", got, exp), "groups=%r" % (got["g"],))
    if not env.sym:
        ref = shapes.build_ref(cat)
        r = ref["M"].FromString(bytes(wire))
        env.check("oracle:reference-last-wins", sm.canon_of_ref(cat, "M", r)["g"] == exp["g"])


def sym_setup(betterproto):
    # the Timestamp / Duration units below run on the datetime / timedelta models of C15
    from .c15 import sym_setup as time_setup

    return time_setup(betterproto)


def time_units():
    """Timestamp / Duration fields (datetime / timedelta on the Python side): the conversion kernels of C15 over every span and instant, the
    boundary constants, and the repeated / optional / oneof / map-value positions (binary codec and the reference at the witnesses)"""
    from . import c15

    return [("time-fields: duration[all spans]", c15.h_duration, {"binary_only": True}), ("time-fields: duration[boundaries]", c15.h_duration_boundaries, {"binary_only": True}),
            ("time-fields: timestamp[aware, any offset]", c15.h_timestamp, {"aware": True, "binary_only": True}), ("time-fields: timestamp[boundaries]", c15.h_timestamp_boundaries, {"binary_only": True}),
            ("time-fields: positions[repeated, optional, oneof, map value]", c15.h_positions, {"binary_only": True})]  # fmt: skip


def units(tier):
    u = []
    s1 = []
    for kind in catalogue.S1_KINDS:
        for label in catalogue.LABELS:
            if kind.startswith("wrap:") and label in ("optional", "repeated"):
                continue
            s1.append(("s1 %s %s" % (kind, label), ["s1", kind, label]))
    maps = [("map %s->%s" % (k, v), ["s1map", k, v]) for k, v in (("int32", "int32"), ("string", "message"), ("bool", "bytes"), ("sint64", "double"), ("uint64", "enum"), ("fixed32", "string"))]
    s2 = [("s2 " + n, ["s2", n]) for n in catalogue.S2_NAMES]
    for name, c in s1 + maps + s2:
        u.append(("encode[%s]" % name, h_encode, {"cat": c}))
    for name, c in s1 + maps + s2:
        for knob in KNOBS:
            rep = " repeated" in name or name in ("s2 packed", "s2 repmsg", "s2 recursive")
            if knob in ("unpacked", "split-packed") and not rep:
                continue
            if knob in ("reverse-order", "rotate-order") and not (name.startswith("s2") or name.endswith("oneof")):
                continue
            if tier == "quick" and name.startswith("s1") and knob in ("pad2", "rotate-order"):
                continue
            if knob == "pad-max" and not (name.startswith("s2") or " int" in name or " uint" in name or " sint" in name or " bool" in name or " enum" in name):
                continue
            if knob == "duplicate" and not [f for f in catalogue.get(c).shapes["M"].fields if f.label in ("singular", "optional") and f.kind != "message" and not f.wraps]:
                continue
            u.append(("decode[%s | %s]" % (name, knob), h_decode, {"cat": c, "knob": knob}))
    u.append(("oneof-members-any-order", h_oneof_dup, {}))
    from .c01 import two_units

    u += two_units()
    from .c09 import h_long

    for kind in ("string", "bytes", "message", "packed", "map"):
        u.append(("long-payload[%s]" % kind, h_long, {"kind": kind}))
    u += time_units()
    return u


BUDGET = {"quick": 240, "thorough": 1200}
UNIT_PATH_CAP = {"quick": 250, "thorough": 20000}
BOUNDS = {
    "quick": "catalogue S1 + 6 map shapes + 10 S2 shapes; encode direction: all values within the C01 sizes; decode direction: one knob at a time "
    "(field permutation, unpacked, packed run split at every point, 1 or 2 padding bytes in every tag/length/value varint, value varints padded to the 10-byte maximum, duplicated singular scalar, "
    "one injected unknown field at every position); 2-3 oneof members in any order; units capped at 250 paths in quick",
    "thorough": "same, cap 20000 paths per unit",
}
OUTSIDE = "varints above 64 bits, groups, proto2 extensions, repeated occurrences of a singular *message* field (reference merges, betterproto replaces: recorded, not asserted)"
