"""C17 Malformed or truncated input is rejected or isolated, never mis-decoded."""
from .. import catalogue, shapes, sym
from ..shapes import F, Catalogue, Shape, STD_ENUM, Bounds
from ..spec import specmsg as sm, specwire as sw
from ..sym import SymBool, SymBytes, SymInt

WARMUP = True  # a concrete first use of the harness before each path (vf/explore.py: WarmEnv)
PROPERTY = "C17"


def _n(f):
    f.narrow = True
    return f


def reader(name):
    leaf = Shape("Leaf", [F("x", 1, "int32"), F("s", 2, "string")])
    fields = {
        "int32": [F("v", 1, "int32")],
        "sint64": [F("v", 1, "sint64")],
        "bool": [F("v", 1, "bool")],
        "fixed32": [F("v", 1, "fixed32")],
        "double": [F("v", 1, "double")],
        "string": [F("v", 1, "string")],
        "bytes": [F("v", 1, "bytes")],
        "message": [F("v", 1, "message", msg="Leaf")],
        "packed": [F("v", 1, "sint32", "repeated")],
        "repstring": [F("v", 1, "string", "repeated")],
        "packfix": [F("v", 1, "fixed32", "repeated"), F("w", 2, "double", "repeated")],
        "packbool": [F("v", 1, "bool", "repeated"), F("u", 3, "uint64", "repeated")],
        "map": [F("v", 1, "string", "map", key="int32")],
        "oneof": [F("a", 1, "int32", group="g"), F("b", 2, "string", group="g"), F("c", 3, "message", group="g", msg="Leaf")],
        "optional": [F("v", 1, "int32", "optional"), F("w", 2, "message", wraps="string")],
        "two": [F("a", 1, "int64"), F("b", 2, "bytes")],
        "rep+single": [F("r", 1, "int32", "repeated"), F("s", 2, "int32"), F("t", 3, "sint32", "repeated"), F("u", 4, "sint32")],
    }[name]
    return Catalogue("c17-" + name, [leaf, Shape("M", fields)], [STD_ENUM])


def well_typed(cat, shape, m):
    """every field holds a value of its declared Python type (returns a description of the first offender or None)"""
    import betterproto

    s = cat.shapes[shape]

    def ok(f, v, kind=None):
        kind = kind or f.wraps or f.kind
        if kind == "message":
            return isinstance(v, betterproto.Message) and well_typed(cat, f.msg, v) is None
        if kind == "bool":
            return isinstance(v, (bool, SymBool))
        if kind in ("float", "double"):
            return isinstance(v, float)
        if kind == "string":
            return isinstance(v, str)
        if kind == "bytes":
            return isinstance(v, bytes)
        if kind == "enum":
            return isinstance(v, (betterproto.Enum, SymInt))
        return isinstance(v, (int, SymInt)) and not isinstance(v, (bool, SymBool))

    for f in s.fields:
        try:
            v = getattr(m, f.name)
        except AttributeError:
            continue  # unselected oneof member
        if f.label == "repeated":
            if not isinstance(v, list) or not all(ok(f, x) for x in v):
                return "%s: %s" % (f.name, type(v).__name__)
        elif f.label == "map":
            if not isinstance(v, dict) or not all(ok(f, k, f.key) and ok(f, x) for k, x in v.items()):
                return "%s: %s" % (f.name, type(v).__name__)
        elif v is None:
            if not (f.label == "optional" or f.wraps):
                return "%s: None" % f.name
        elif not ok(f, v):
            return "%s: %s" % (f.name, type(v).__name__)
    return None


def judge(env, cat, buf):
    """the oracle shared by all C17 harnesses: the strict spec decoder decides what `buf` is"""
    mod = shapes.build_bp(cat)
    notes = []
    spec, why = None, None
    del sw.WIDE32[:]
    try:
        spec = sm.spec_decode(cat, "M", buf, notes)
    except sw.SpecGroup:
        why = "group"
    except sw.SpecDecodeError as e:
        why = str(e)
    try:
        m = mod.M().parse(sym.wire(buf))
        raised = None
    except Exception as e:
        m, raised = None, e
    if why == "group":
        # a (proto2) group may be rejected or skipped; if the call returns, the result must be sound
        if m is not None:
            env.check("group:well-typed", well_typed(cat, "M", m) is None)
        return
    if spec is None:
        env.check("malformed-input-rejected", m is None, "spec: %s ; implementation returned a message" % why)
        return
    if "dup-message" in notes:
        env.cut("a singular message field occurs twice (merge vs. replace is outside the claim)")
    if sw.WIDE32:
        env.cut("a uint32/sint32 field received a varint above 32 bits (truncation is not required by the property)")
    env.check("well-formed-input-accepted", m is not None, "raised %r" % (raised,))
    if m is None:
        return
    bad = well_typed(cat, "M", m)
    env.check("every-field-has-its-declared-type", bad is None, str(bad))
    if bad is not None:
        return
    got = sm.canon_of_bp(cat, "M", m)
    env.check("decoded==spec-view", sm.canon_equal(cat, "M", got, spec), "groups=%r spec=%r" % (got["g"], spec["g"]))
    try:
        out = bytes(m)
    except Exception as e:
        env.check("can-be-encoded-again", False, repr(e))
        return
    env.check("can-be-encoded-again", True)
    env.observe("out", out)
    try:
        again = sm.spec_decode(cat, "M", out)
        env.check("re-encoding-denotes-the-same", sm.canon_equal(cat, "M", again, spec))
    except sw.SpecDecodeError as e:
        env.check("re-encoding-denotes-the-same", False, str(e))
    if not env.sym:
        # recorded, not asserted: the reference's accept/reject decision
        ref = shapes.build_ref(cat)
        try:
            ref["M"].FromString(bytes(buf))
        except Exception:
            pass


def h_arbitrary(env):
    """every byte string of length n"""
    cat = reader(env.params["reader"])
    buf = env.bytes("buf", env.params["n"])
    judge(env, cat, buf)


def h_truncation(env):
    """a valid encoding cut at every point"""
    cat = reader(env.params["reader"])
    val = shapes.gen_value(env, cat, "M", b=Bounds(rep=2, mapn=1, strlen=1, depth=1, narrow=True, received=False))
    wire = sm.spec_encode(cat, "M", val)
    if len(wire) == 0:
        env.cut("empty encoding")
    cut = env.choose("cut", len(wire))
    judge(env, cat, wire[:cut])


def h_corrupt(env):
    """a valid encoding with one byte replaced by an arbitrary byte"""
    cat = reader(env.params["reader"])
    val = shapes.gen_value(env, cat, "M", b=Bounds(rep=1, mapn=1, strlen=1, depth=1, narrow=True, received=False))
    wire = sm.spec_encode(cat, "M", val)
    if len(wire) == 0:
        env.cut("empty encoding")
    pos = env.choose("pos", len(wire))
    b = env.bytes("byte", 1)
    judge(env, cat, wire[:pos] + b + wire[pos + 1 :])


def h_wiretype(env):
    """a known field number arriving with each of the 8 wire types (well-formed payload for that type)"""
    cat = reader(env.params["reader"])
    s = cat.shapes["M"]
    f = s.fields[env.choose("field", len(s.fields))]
    wt = env.choose("wt", 8)
    if wt == 0:
        payload = sw.varint(env.int("varint", 0, (1 << 64) - 1))
    elif wt == 1:
        payload = env.bytes("p64", 8)
    elif wt == 5:
        payload = env.bytes("p32", 4)
    elif wt == 2:
        n = env.choose("len", 3)
        payload = sw.cat(sw.varint(n), env.bytes("pl", n))
    else:
        payload = SymBytes([])
    # a correctly encoded occurrence of another field first, so that "does not alter known fields" is visible
    before = SymBytes([])
    if env.params["reader"] == "rep+single":
        # a valid packed occurrence of the repeated twin first
        before = sw.cat(sw.len_field(1, sw.scalar_payload("int32", env.int("r0", 0, 63))), sw.len_field(3, sw.scalar_payload("sint32", env.int("t0", -64, 63))))
    elif len(s.fields) > 1:
        other = [g for g in s.fields if g is not f and not g.group][:1]
        if other and other[0].kind in sw.RANGES:
            before = sw.field(other[0].number, other[0].kind, env.int("other", 1, 63))
    judge(env, cat, before + sw.tag(f.number, wt) + payload)


READERS = ["int32", "sint64", "bool", "fixed32", "double", "string", "bytes", "message", "packed", "repstring", "map", "oneof", "optional", "two", "rep+single", "packfix", "packbool"]


def units(tier):
    u = []
    for r in READERS:
        top = 4 if tier == "quick" else 5
        if r in ("int32", "string") and tier == "quick":
            top = 5
        if r in ("int32", "string", "packed") and tier == "thorough":
            top = 6
        for n in range(1, top + 1):
            u.append(("arbitrary[%s n=%d]" % (r, n), h_arbitrary, {"reader": r, "n": n}))
        u.append(("truncation[%s]" % r, h_truncation, {"reader": r}))
        u.append(("corrupt-byte[%s]" % r, h_corrupt, {"reader": r}))
        u.append(("wire-type[%s]" % r, h_wiretype, {"reader": r}))
    return u


BUDGET = {"quick": 240, "thorough": 1200}
UNIT_PATH_CAP = {"quick": 12000, "thorough": 400000}
BOUNDS = {
    "quick": "14 reader shapes; every byte string of length <= 4 (<= 5 for int32/string readers); valid encodings (values one byte wide, "
    "strings <= 1 code point, repeated <= 2) cut at every point, with every single byte replaced by an arbitrary byte, and every known field "
    "number arriving with each of the 8 wire types",
    "thorough": "byte strings of length <= 5 for all readers, <= 6 for int32/string/packed readers; 80000 paths per unit",
}
OUTSIDE = ("uint32/sint32 fields receiving varints above 32 bits, enum-typed readers (an open enum member needs a concrete int: C20), inputs where a singular message field occurs twice (merge vs replace), "
           "agreement with the reference's accept/reject decision (recorded at witnesses only)")
