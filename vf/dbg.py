"""debug driver: explore one unit in-process (symbolic side only)"""
import sys, time, json
from . import worker, explore

def main():
    prop, pat = sys.argv[1], sys.argv[2] if len(sys.argv) > 2 else ""
    tier = sys.argv[3] if len(sys.argv) > 3 else "quick"
    worker.init_symbolic()
    mod = worker.harness_module(prop)
    worker.harness_setup(prop)
    for name, fn, params in mod.units(tier):
        if pat not in name:
            continue
        t0 = time.time()
        agg = explore.explore(fn, params, tier=tier)
        v = agg.pop("violations"); w = agg.pop("witnesses"); agg.pop("kinds"); agg.pop("leftover")
        print(name, {k: (round(x, 2) if isinstance(x, float) else x) for k, x in agg.items()})
        for x in v[:5]:
            print("   VIOL", x["label"], x["inputs"], x["detail"][-600:])
        if w and "-w" in sys.argv: print("   witness", w[0])

main()
