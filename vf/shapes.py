"""The "programs" dimension: a stated finite catalogue of message shapes.

From one DSL entry the framework emits (a) the betterproto dataclass through the public
field API (the same text the plugin renders) and (b) a FileDescriptorProto from which
google.protobuf builds the reference class (private DescriptorPool, no protoc).
"""
import builtins
import struct as _struct
import sys
import types

from .spec import specwire as sw

SCALARS = ["int32", "int64", "uint32", "uint64", "sint32", "sint64", "bool", "fixed32", "sfixed32", "fixed64", "sfixed64",
           "float", "double", "string", "bytes"]  # fmt: skip
MAP_KEY_KINDS = ["int32", "int64", "uint32", "uint64", "sint32", "sint64", "fixed32", "sfixed32", "fixed64", "sfixed64", "bool", "string"]
PY_TYPE = {k: "int" for k in SCALARS}
PY_TYPE.update({"bool": "bool", "float": "float", "double": "float", "string": "str", "bytes": "bytes"})
WRAPPER_OF = {"double": "DoubleValue", "float": "FloatValue", "int64": "Int64Value", "uint64": "UInt64Value", "int32": "Int32Value",
              "uint32": "UInt32Value", "bool": "BoolValue", "string": "StringValue", "bytes": "BytesValue"}  # fmt: skip


class F:
    """one field.  label: singular | optional | repeated | map ;  kind: scalar kind | enum | message"""

    def __init__(self, name, number, kind, label="singular", group=None, msg=None, enum=None, key=None, wraps=None):
        self.name, self.number, self.kind, self.label = name, number, kind, label
        self.group, self.msg, self.enum, self.key, self.wraps = group, msg, enum, key, wraps

    def __repr__(self):
        return "F(%s=%d %s %s)" % (self.name, self.number, self.label, self.kind)


class Shape:
    def __init__(self, name, fields):
        self.name, self.fields = name, fields
        self.by_name = {f.name: f for f in fields}

    def groups(self):
        g = {}
        for f in self.fields:
            if f.group:
                g.setdefault(f.group, []).append(f)
        return g


class EnumDef:
    def __init__(self, name, members):
        self.name, self.members = name, members  # [(NAME, number)]


class Catalogue:
    def __init__(self, name, shapes, enums=()):
        self.name = name
        self.shapes = {s.name: s for s in shapes}
        self.enums = {e.name: e for e in enums}


# ---------------------------------------------------------------------------
# (a) betterproto classes


def _annotation(cat, f):
    if f.wraps:
        return "Optional[%s]" % PY_TYPE[f.wraps]
    if f.kind == "message":
        base = {"Timestamp": "datetime", "Duration": "timedelta"}.get(f.msg, '"%s"' % f.msg)
    elif f.kind == "enum":
        base = '"%s"' % f.enum
    else:
        base = PY_TYPE[f.kind]
    if f.label == "repeated":
        return "List[%s]" % base
    if f.label == "optional":
        return "Optional[%s]" % base
    if f.label == "map":
        return "Dict[%s, %s]" % (PY_TYPE[f.key], base)
    return base


def _field_call(cat, f):
    if f.label == "map":
        vk = "TYPE_" + f.kind.upper()
        return "betterproto.map_field(%d, betterproto.TYPE_%s, betterproto.%s)" % (f.number, f.key.upper(), vk)
    args = [str(f.number)]
    if f.wraps:
        args.append("wraps=betterproto.TYPE_%s" % f.wraps.upper())
    if f.label == "optional":
        args.append("optional=True")
    if f.group:
        args.append('group="%s"' % f.group)
    return "betterproto.%s_field(%s)" % (f.kind, ", ".join(args))


def emit_source(cat):
    lines = [
        "from dataclasses import dataclass",
        "from datetime import datetime, timedelta",
        "from typing import Dict, List, Optional",
        "import betterproto",
        "",
    ]
    for e in cat.enums.values():
        lines.append("class %s(betterproto.Enum):" % e.name)
        for n, v in e.members:
            lines.append("    %s = %d" % (n, v))
        lines.append("")
    for s in cat.shapes.values():
        lines.append("@dataclass(eq=False, repr=False)")
        lines.append("class %s(betterproto.Message):" % s.name)
        if not s.fields:
            lines.append("    pass")
        for f in s.fields:
            lines.append("    %s: %s = %s" % (f.name, _annotation(cat, f), _field_call(cat, f)))
        lines.append("")
    return "\n".join(lines)


_BP_CACHE = {}


def build_bp(cat):
    """module holding the betterproto classes of the catalogue (built once per process)"""
    m = _BP_CACHE.get(cat.name)
    if m is None:
        name = "vf_shapes_" + cat.name.replace("-", "_").replace("[", "_").replace("]", "_")
        m = types.ModuleType(name)
        m.__vf_source__ = emit_source(cat)
        sys.modules[name] = m
        from . import procstate

        with procstate.class_creation():
            exec(compile(m.__vf_source__, "<shapes:%s>" % cat.name, "exec"), m.__dict__)
        _BP_CACHE[cat.name] = m
    return m


# ---------------------------------------------------------------------------
# (b) reference classes (google.protobuf), native processes only

_REF_CACHE = {}
_FD_TYPE = {"double": 1, "float": 2, "int64": 3, "uint64": 4, "int32": 5, "fixed64": 6, "fixed32": 7, "bool": 8, "string": 9,
            "message": 11, "bytes": 12, "uint32": 13, "enum": 14, "sfixed32": 15, "sfixed64": 16, "sint32": 17, "sint64": 18}  # fmt: skip


def build_ref(cat):
    r = _REF_CACHE.get(cat.name)
    if r is not None:
        return r
    from google.protobuf import descriptor_pb2, descriptor_pool, message_factory
    from google.protobuf import duration_pb2, timestamp_pb2, wrappers_pb2  # noqa: F401

    pool = descriptor_pool.DescriptorPool()
    for dep in (timestamp_pb2, duration_pb2, wrappers_pb2):
        fdp = descriptor_pb2.FileDescriptorProto()
        dep.DESCRIPTOR.CopyToProto(fdp)
        pool.Add(fdp)
    pkg = "vf." + "".join(c if c.isalnum() else "_" for c in cat.name)
    fd = descriptor_pb2.FileDescriptorProto(name=pkg + ".proto", package=pkg, syntax="proto3")
    fd.dependency.extend(["google/protobuf/timestamp.proto", "google/protobuf/duration.proto", "google/protobuf/wrappers.proto"])
    for e in cat.enums.values():
        ed = fd.enum_type.add(name=e.name)
        if len({v for _, v in e.members}) != len(e.members):
            ed.options.allow_alias = True
        for n, v in e.members:
            ed.value.add(name=n, number=v)
    for s in cat.shapes.values():
        md = fd.message_type.add(name=s.name)
        oneofs = {}
        for f in s.fields:
            if f.group and f.group not in oneofs:
                oneofs[f.group] = len(md.oneof_decl)
                md.oneof_decl.add(name=f.group)
        for f in s.fields:
            fld = md.field.add(name=f.name, number=f.number)
            fld.label = 3 if f.label in ("repeated", "map") else 1

            def settype(fld, kind, msg, enum, wraps):
                if wraps:
                    fld.type = 11
                    fld.type_name = ".google.protobuf." + WRAPPER_OF[wraps]
                elif kind == "message":
                    fld.type = 11
                    fld.type_name = ".google.protobuf." + msg if msg in ("Timestamp", "Duration") else ".%s.%s" % (pkg, msg)
                elif kind == "enum":
                    fld.type = 14
                    fld.type_name = ".%s.%s" % (pkg, enum)
                else:
                    fld.type = _FD_TYPE[kind]

            if f.label == "map":
                entry = "".join(p.capitalize() for p in f.name.split("_")) + "Entry"
                nd = md.nested_type.add(name=entry)
                nd.options.map_entry = True
                kf = nd.field.add(name="key", number=1, label=1)
                kf.type = _FD_TYPE[f.key]
                vf = nd.field.add(name="value", number=2, label=1)
                settype(vf, f.kind, f.msg, f.enum, None)
                fld.type = 11
                fld.type_name = ".%s.%s.%s" % (pkg, s.name, entry)
            else:
                settype(fld, f.kind, f.msg, f.enum, f.wraps)
            if f.group:
                fld.oneof_index = oneofs[f.group]
        # synthetic oneofs of proto3 optional fields come after the real ones
        for f in s.fields:
            if f.label == "optional":
                idx = len(md.oneof_decl)
                md.oneof_decl.add(name="_" + f.name)
                for fld in md.field:
                    if fld.name == f.name:
                        fld.proto3_optional = True
                        fld.oneof_index = idx
    pool.Add(fd)
    r = {s: message_factory.GetMessageClass(pool.FindMessageTypeByName("%s.%s" % (pkg, s))) for s in cat.shapes}
    r["__enums__"] = {e: pool.FindEnumTypeByName("%s.%s" % (pkg, e)) for e in cat.enums}
    _REF_CACHE[cat.name] = r
    return r


# ---------------------------------------------------------------------------
# scalar helpers


def default_of(kind):
    return {"bool": False, "float": 0.0, "double": 0.0, "string": "", "bytes": b""}.get(kind, 0)


def sym_scalar(env, name, kind, strlen=None):
    """a value of the kind over its full declared range"""
    if kind in sw.RANGES:
        lo, hi = sw.RANGES[kind]
        return env.int(name, lo, hi)
    if kind == "bool":
        return env.bool(name)
    if kind == "double":
        return env.f64(name)
    if kind == "float":
        v = env.f64(name)
        env.assume(float_is_f32(v))
        return v
    if kind == "string":
        n = env.choose(name + "#len", (strlen if strlen is not None else 2) + 1)
        return env.str(name, n)
    if kind == "bytes":
        n = env.choose(name + "#len", (strlen if strlen is not None else 2) + 1)
        return env.bytes(name, n)
    raise ValueError(kind)


def float_is_f32(v):
    """precondition of float fields: the double is binary32-representable or NaN"""
    if getattr(v, "_vf_float", False):
        import z3

        from .symfloat import F32, F64, RNE
        from .sym import mkb

        f = v.fp
        back = z3.fpFPToFP(RNE, z3.fpFPToFP(RNE, f, F32), F64)
        # NaN payloads: only those that survive the narrowing (low 29 mantissa bits zero, quiet)
        nan_ok = z3.And(z3.Extract(28, 0, v.bits) == 0, z3.Extract(51, 51, v.bits) == 1)
        return mkb(z3.If(z3.fpIsNaN(f), nan_ok, z3.fpEQ(back, f)))
    if v != v:
        bits = _struct.unpack("<Q", _struct.pack("<d", v))[0]
        return bits & ((1 << 29) - 1) == 0 and (bits >> 51) & 1 == 1
    try:
        return _struct.unpack("<f", _struct.pack("<f", v))[0] == v
    except OverflowError:
        return False


def float_same(a, b, kind="double"):
    """bit-identical doubles (the codec is a bit copy), NaNs included"""
    if getattr(a, "_vf_float", False) or getattr(b, "_vf_float", False):
        from .symfloat import SymFloat
        from .sym import mkb

        return mkb(SymFloat.coerce(a).bits == SymFloat.coerce(b).bits)
    if not isinstance(a, float) or not isinstance(b, float):
        return False
    return _struct.pack("<d", a) == _struct.pack("<d", b)


def single_field_catalogue(kind, numbers, label="singular"):
    shapes = []
    enums = []
    for i, n in enumerate(numbers):
        if kind == "enum":
            shapes.append(Shape("S%d" % i, [F("v", n, "enum", label, enum="E")]))
        else:
            shapes.append(Shape("S%d" % i, [F("v", n, kind, label)]))
    if kind == "enum":
        enums.append(EnumDef("E", [("ZERO", 0), ("ONE", 1), ("NEG", -1), ("BIG", (1 << 31) - 1), ("MIN", -(1 << 31))]))
    return Catalogue("single-%s-%s" % (kind, label), shapes, enums)


def ref_set_scalar(r, name, kind, v):
    if kind == "enum":
        setattr(r, name, builtins.int(v))
    elif kind == "float":
        setattr(r, name, v)
    else:
        setattr(r, name, v)


def ref_scalar_equal(rv, v, kind):
    if kind in ("float", "double"):
        if v != v:
            return rv != rv
        return rv == v
    return rv == v


# ---------------------------------------------------------------------------
# symbolic value trees (see spec/specmsg.py for the representation)

ENUM_NUMBERS = [0, 1, -1, 7, (1 << 31) - 1, -(1 << 31)]  # defined members 0, 1, -1 ; 7 and the int32 ends are undefined
STD_ENUM = EnumDef("E", [("ZERO", 0), ("ONE", 1), ("NEG", -1)])


class Bounds:
    def __init__(self, rep=2, mapn=2, strlen=2, depth=2, narrow=False, enum_numbers=None, received=True, wide_first_only=False):
        self.rep, self.mapn, self.strlen, self.depth = rep, mapn, strlen, depth
        self.wide_first_only = wide_first_only  # container elements after the first are one byte wide
        self.narrow = narrow  # one-byte-wide integers (keeps the 10-way varint length fork from multiplying)
        self.enum_numbers = enum_numbers or ENUM_NUMBERS
        self.received = received  # allow empty-but-present (received) sub-messages


def gen_scalar(env, name, f_kind, b, narrow=None):
    narrow = b.narrow if narrow is None else narrow
    if f_kind == "enum":
        return b.enum_numbers[env.choose(name, len(b.enum_numbers))]
    if narrow and f_kind in sw.RANGES:
        lo, hi = sw.RANGES[f_kind]
        return env.int(name, max(lo, -64), min(hi, 63))
    if narrow and f_kind in ("string", "bytes"):
        return sym_scalar(env, name, f_kind, 1)
    return sym_scalar(env, name, f_kind, b.strlen)


def gen_value(env, cat, shape, pfx="", b=None, depth=0):
    """a symbolic value tree of the shape: which fields are assigned, container sizes and
    oneof selections are environment choices; leaf values are symbolic over their full range"""
    b = b or Bounds()
    s = cat.shapes[shape]
    val = {}
    done_groups = set()
    for f in s.fields:
        name = pfx + f.name
        narrow = getattr(f, "narrow", None)
        if f.group:
            if f.group in done_groups:
                continue
            done_groups.add(f.group)
            members = s.groups()[f.group]
            k = env.choose(pfx + f.group + "#sel", len(members) + 1)
            if k == 0:
                continue
            f = members[k - 1]
            name = pfx + f.name
            narrow = getattr(f, "narrow", None)
            val[f.name] = _gen_one(env, cat, f, name, b, depth, narrow)
            continue
        if f.label == "repeated":
            n = env.choose(name + "#n", b.rep + 1)
            if n:
                val[f.name] = [_gen_one(env, cat, f, "%s[%d]" % (name, i), b, depth, narrow or (i > 0 and b.wide_first_only) or None) for i in range(n)]
        elif f.label == "map":
            n = env.choose(name + "#n", b.mapn + 1)
            if n:
                val[f.name] = [
                    (
                        gen_scalar(env, "%s.k%d" % (name, i), f.key, b, narrow or (n > 1 and b.wide_first_only) or None),
                        _gen_one(env, cat, f, "%s.v%d" % (name, i), b, depth, narrow or (n > 1 and b.wide_first_only) or None),
                    )
                    for i in range(n)
                ]
        elif f.label == "optional" or f.wraps or f.kind == "message":
            if f.kind == "message" and not f.wraps and depth >= b.depth:
                continue
            if env.choose(name + "#set", 2):
                val[f.name] = _gen_one(env, cat, f, name, b, depth, narrow)
        else:
            val[f.name] = _gen_one(env, cat, f, name, b, depth, narrow)
    return val


def _gen_one(env, cat, f, name, b, depth, narrow):
    if f.wraps:
        return gen_scalar(env, name, f.wraps, b, narrow)
    if f.kind == "message":
        if depth >= b.depth:
            return {"__received__": True} if b.received else {}
        if narrow and not b.narrow:
            b = Bounds(b.rep, b.mapn, b.strlen, b.depth, True, b.enum_numbers, b.received, b.wide_first_only)
        if b.received and f.label not in ("repeated", "map") and cat.shapes[f.msg].fields and env.choose(name + "#bare", 2):
            # a sub-message built with no argument at all (`Leaf()`): nothing in it was ever assigned, so it is not marked present
            return {}
        sub = gen_value(env, cat, f.msg, name + ".", b, depth + 1)
        if not [k for k in sub if not k.startswith("__")] and b.received and f.label not in ("repeated", "map"):
            if not cat.shapes[f.msg].fields:
                # a type without fields: presence is all a value of it carries, and assigning one always marks it present
                sub["__received__"] = True
            elif env.choose(name + "#received", 2):
                sub["__received__"] = True
        return sub
    return gen_scalar(env, name, f.kind, b, narrow)
