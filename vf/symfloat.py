"""Symbolic IEEE-754 doubles: raw 64-bit pattern (so NaN payloads and -0.0 survive
pack/unpack) plus a z3 Float64 view for comparisons and arithmetic."""
import builtins
import struct as _struct

import z3

from . import sym
from .sym import B, SymBool, SymBytes, SymInt, Unsupported, W, bv, mk, mkb

F64 = z3.Float64()
F32 = z3.Float32()
RNE = z3.RNE()
RTZ = z3.RTZ()


def _bits_of(x):
    return _struct.unpack("<Q", _struct.pack("<d", x))[0]


def _fpval(x):
    return z3.fpBVToFP(z3.BitVecVal(_bits_of(builtins.float(x)), 64), F64)


class SymFloat(float):
    def __copy__(self):
        return self

    def __deepcopy__(self, memo):
        return self

    _vf_sym = True
    _vf_float = True

    def __new__(cls, bits):
        o = float.__new__(cls, 0.0)
        o.bits = z3.simplify(bits)
        return o

    # -- constructors ---------------------------------------------------
    @staticmethod
    def coerce(v):
        if isinstance(v, SymFloat):
            return v
        if isinstance(v, (SymInt, SymBool)):
            return SymFloat.from_int(v)
        if isinstance(v, (builtins.float, builtins.int)):
            return SymFloat(z3.BitVecVal(_bits_of(builtins.float(v)), 64))
        raise Unsupported("float coercion of %s" % type(v).__name__)

    @staticmethod
    def from_fp(f):
        """from a Float64 term that is known not to be NaN (or canonical NaN is acceptable)"""
        return SymFloat(z3.fpToIEEEBV(f))

    @staticmethod
    def from_int(v):
        t = bv(v)
        # Python raises OverflowError beyond the double range; our ints are < 2**95, always fine
        return SymFloat.from_fp(z3.fpSignedToFP(RNE, t, F64))

    @staticmethod
    def unpack64(b):
        return SymFloat(z3.Concat([b.term(i) for i in reversed(range(8))]))

    @staticmethod
    def unpack32(b):
        t = z3.Concat([b.term(i) for i in reversed(range(4))])
        sign, exp, man = z3.Extract(31, 31, t), z3.Extract(30, 23, t), z3.Extract(22, 0, t)
        if B(z3.And(exp == 0xFF, man != 0)):
            # (double)nan_f32: payload widened, signalling NaNs are quieted (cvtss2sd)
            man64 = z3.Concat(man | z3.BitVecVal(1 << 22, 23), z3.BitVecVal(0, 29))
            return SymFloat(z3.Concat(sign, z3.BitVecVal(0x7FF, 11), man64))
        return SymFloat.from_fp(z3.fpFPToFP(RNE, z3.fpBVToFP(t, F32), F64))

    # -- views -------------------------------------------------------------
    @property
    def fp(self):
        return z3.fpBVToFP(self.bits, F64)

    def is_concrete(self):
        return z3.is_bv_value(self.bits)

    def concrete(self):
        if z3.is_bv_value(self.bits):
            return _struct.unpack("<d", _struct.pack("<Q", self.bits.as_long()))[0]
        return None

    def isnan(self):
        return mkb(z3.fpIsNaN(self.fp))

    def isinf(self):
        return mkb(z3.fpIsInf(self.fp))

    def pack64(self):
        return SymBytes([z3.Extract(8 * i + 7, 8 * i, self.bits) for i in range(8)])

    def pack32(self):
        if B(z3.fpIsNaN(self.fp)):
            sign, man = z3.Extract(63, 63, self.bits), z3.Extract(51, 29, self.bits)
            t = z3.Concat(sign, z3.BitVecVal(0xFF, 8), man | z3.BitVecVal(1 << 22, 23))
        else:
            y = z3.fpFPToFP(RNE, self.fp, F32)
            if B(z3.And(z3.fpIsInf(y), z3.Not(z3.fpIsInf(self.fp)))):
                raise OverflowError("float too large to pack with f format")
            t = z3.fpToIEEEBV(y)
        return SymBytes([z3.Extract(8 * i + 7, 8 * i, t) for i in range(4)])

    # -- comparisons (IEEE) -------------------------------------------------
    def _other(self, o):
        if isinstance(o, SymFloat):
            return o.fp
        if isinstance(o, (SymInt, SymBool)):
            return None  # exact int/float comparison is not modelled
        if isinstance(o, bool):
            return _fpval(builtins.float(o))
        if isinstance(o, builtins.int):
            if abs(o) > 1 << 53:
                return None
            return _fpval(builtins.float(o))
        if isinstance(o, builtins.float):
            return _fpval(o)
        return NotImplemented

    def _cmp(self, o, op, neg=False):
        t = self._other(o)
        if t is NotImplemented:
            return NotImplemented
        if t is None:
            raise Unsupported("float comparison with a symbolic/huge int")
        r = op(self.fp, t)
        return mkb(z3.Not(r) if neg else r)

    def __eq__(self, o):
        return self._cmp(o, z3.fpEQ)

    def __ne__(self, o):
        return self._cmp(o, z3.fpEQ, True)

    def __lt__(self, o):
        return self._cmp(o, z3.fpLT)

    def __le__(self, o):
        return self._cmp(o, z3.fpLEQ)

    def __gt__(self, o):
        return self._cmp(o, z3.fpGT)

    def __ge__(self, o):
        return self._cmp(o, z3.fpGEQ)

    def __hash__(self):
        return 0

    def __bool__(self):
        return B(z3.Not(z3.fpIsZero(self.fp)))

    # -- arithmetic (only what the conversion kernels need) -------------------
    def _arith(self, o, op, rev=False):
        t = self._other(o) if not isinstance(o, (SymInt, SymBool)) else SymFloat.from_int(o).fp
        if t is NotImplemented:
            return NotImplemented
        if t is None:
            raise Unsupported("float arithmetic with a huge int")
        a, b = (t, self.fp) if rev else (self.fp, t)
        return SymFloat.from_fp(op(RNE, a, b))

    def __add__(self, o):
        return self._arith(o, z3.fpAdd)

    __radd__ = __add__

    def __sub__(self, o):
        return self._arith(o, z3.fpSub)

    def __rsub__(self, o):
        return self._arith(o, z3.fpSub, True)

    def __mul__(self, o):
        return self._arith(o, z3.fpMul)

    __rmul__ = __mul__

    def __truediv__(self, o):
        t = self._other(o) if not isinstance(o, (SymInt, SymBool)) else SymFloat.from_int(o).fp
        if t is NotImplemented:
            return NotImplemented
        if t is None:
            raise Unsupported("float arithmetic with a huge int")
        if B(z3.fpIsZero(t)):
            raise ZeroDivisionError("float division by zero")
        return SymFloat.from_fp(z3.fpDiv(RNE, self.fp, t))

    def __rtruediv__(self, o):
        if B(z3.fpIsZero(self.fp)):
            raise ZeroDivisionError("float division by zero")
        return self._arith(o, z3.fpDiv, True)

    def __neg__(self):
        return SymFloat(self.bits ^ z3.BitVecVal(1 << 63, 64))

    def __abs__(self):
        return SymFloat(self.bits & z3.BitVecVal((1 << 63) - 1, 64))

    def _integral_int(self):
        """BV(W) term of an integer-valued double (else Unsupported)"""
        f = self.fp
        if B(z3.Or(z3.fpIsNaN(f), z3.fpIsInf(f))):
            raise Unsupported("non-finite float in integer context")
        if not B(z3.fpEQ(z3.fpRoundToIntegral(RTZ, f), f)):
            raise Unsupported("fmod of a non-integral float")
        return z3.fpToSBV(RTZ, f, z3.BitVecSort(W))

    def __mod__(self, o):
        # fmod is exact; modelled for integer-valued operands only (the conversion kernels)
        o = SymFloat.coerce(o)
        a, b = self._integral_int(), o._integral_int()
        if B(b == 0):
            raise ZeroDivisionError("float modulo")
        return SymFloat.from_fp(z3.fpSignedToFP(RNE, z3.simplify(sym._mod(a, b)), F64))

    def __rmod__(self, o):
        return SymFloat.coerce(o).__mod__(self)

    def __floordiv__(self, o):
        o = SymFloat.coerce(o)
        a, b = self._integral_int(), o._integral_int()
        if B(b == 0):
            raise ZeroDivisionError("float floor division")
        return SymFloat.from_fp(z3.fpSignedToFP(RNE, z3.simplify(sym._floordiv(a, b)), F64))

    def __rfloordiv__(self, o):
        return SymFloat.coerce(o).__floordiv__(self)

    def __int__(self):
        f = self.fp
        if B(z3.fpIsNaN(f)):
            raise ValueError("cannot convert float NaN to integer")
        if B(z3.fpIsInf(f)):
            raise OverflowError("cannot convert float infinity to integer")
        lim = _fpval(builtins.float(1 << 90))
        if not B(z3.And(z3.fpLT(f, lim), z3.fpGT(f, z3.fpNeg(lim)))):
            raise Unsupported("int(float) beyond BV width")
        return mk(z3.fpToSBV(RTZ, f, z3.BitVecSort(W)))

    __trunc__ = __int__
    __index__ = None

    def round_half_even_int(self):
        """CPython's round-half-even to an int (used by timedelta(microseconds=float))"""
        f = self.fp
        if B(z3.Or(z3.fpIsNaN(f), z3.fpIsInf(f))):
            raise Unsupported("non-finite float")
        return mk(z3.fpToSBV(RNE, z3.fpRoundToIntegral(RNE, f), z3.BitVecSort(W)))

    def __round__(self, n=None):
        if n is None:
            return self.round_half_even_int()
        raise Unsupported("round(float, n)")

    def __float__(self):
        c = self.concrete()
        if c is None:
            raise Unsupported("symbolic float reached C code")
        return c

    def __repr__(self):
        return f"SymFloat({self.bits})"

    def __str__(self):
        raise Unsupported("str(float) is C code (shortest repr)")

    def __format__(self, spec):
        return "<symfloat>"

    def is_integer(self):
        f = self.fp
        return mkb(z3.And(z3.Not(z3.fpIsNaN(f)), z3.Not(z3.fpIsInf(f)), z3.fpEQ(z3.fpRoundToIntegral(RTZ, f), f)))
