"""pyimport: the semantics of the import statements the plugin emits, for a module that is
the __init__.py of package `current` (a list of components):

    import a.b.c as alias              -> alias = module a.b.c
    from . import x                    -> x     = module current.x
    from .p.q import r as alias        -> alias = module current.p.q.r
    from ... import x as alias         -> alias = module (current minus 2).x
    from .. import Name as alias       -> alias = attribute Name of module (current minus 1)

level = number of leading dots; base = current minus (level - 1) components (PEP 328).
resolve(ref, imports, current) -> (module path as list, attribute path as str)
"""
from ..sym import B, Unsupported
from ..symstr import SymStr


def _eq(a, b):
    r = a == b
    if r is NotImplemented:
        return False
    return B(r) if not isinstance(r, bool) else r


def _split(s, sep):
    return s.split(sep) if isinstance(s, SymStr) else s.split(sep)


def parse_import(stmt):
    """-> dict(kind, level, path[list], name, alias)"""
    words = [w for w in _split(stmt, " ") if len(w)]
    if _eq(words[0], "import"):
        # import a.b.c as alias
        if len(words) == 4 and _eq(words[2], "as"):
            return {"kind": "import", "path": _split(words[1], "."), "alias": words[3]}
        if len(words) == 2:
            return {"kind": "import", "path": _split(words[1], "."), "alias": None}
        raise Unsupported("import statement shape")
    if not _eq(words[0], "from") or not _eq(words[2], "import"):
        raise Unsupported("import statement shape")
    src = words[1]
    level = 0
    while level < len(src) and _eq(src[level], "."):
        level += 1
    rest = src[level:]
    path = _split(rest, ".") if len(rest) else []
    name = words[3]
    alias = words[5] if len(words) == 6 and _eq(words[4], "as") else name
    if len(words) not in (4, 6):
        raise Unsupported("import statement shape")
    return {"kind": "from", "level": level, "path": path, "name": name, "alias": alias}


def bind(stmt, current):
    """alias -> ("module", path) | ("module-or-attr", base path, name)"""
    p = parse_import(stmt)
    if p["kind"] == "import":
        if p["alias"] is None:
            raise Unsupported("import without alias binds the top package")
        return p["alias"], ("module", p["path"])
    if p["level"] == 0:
        return p["alias"], ("member", p["path"], p["name"])
    up = p["level"] - 1
    if up > len(current):
        raise ImportError("attempted relative import beyond top-level package")
    base = list(current[: len(current) - up]) + list(p["path"])
    return p["alias"], ("member", base, p["name"])


def resolve(ref, imports, current):
    """what the annotation string `ref` (quotes stripped) denotes inside the module of package `current`.
    -> ("module", module path, attribute) when the head is an imported module, or
       ("member", base path, name, attribute-or-None) when the head was imported `from base import name`
       ("local", attribute) when the head is not imported (a class of the same module)"""
    parts = _split(ref, ".")
    head = parts[0]
    tail = parts[1:]
    hits = []
    for stmt in imports:
        alias, target = bind(stmt, current)
        if _eq(alias, head):
            hits.append(target)
    if not hits:
        return ("local", ref)
    if len(hits) > 1:
        # the same alias bound twice: the later import wins in Python; they must agree to be unambiguous
        return ("ambiguous", hits)
    t = hits[0]
    attr = tail[0] if len(tail) == 1 else None
    if len(tail) > 1:
        raise Unsupported("dotted attribute path")
    if t[0] == "module":
        return ("module", t[1], attr)
    return ("member", t[1], t[2], attr)
