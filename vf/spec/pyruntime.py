"""Native-only: the annotation string and import lines produced for a reference are put into a real package tree on disk (the layout the
plugin writes: one package directory per proto package below an output root, cross-package imports at the end of the module), the tree
is imported and the reference is resolved by the runtime itself (Message._cls_for -> typing.get_type_hints)."""
import importlib
import itertools
import os
import shutil
import sys
import tempfile

_COUNT = itertools.count()


def resolve_at_runtime(current, source, kind, pyname, ref, imports, field_names=("f",)):
    """returns {field name: resolved class or the exception} and the target class"""
    top = "vfgen%d_%d" % (os.getpid(), next(_COUNT))
    root = tempfile.mkdtemp(prefix="vf_c13_")
    try:
        def pkg_dir(parts):
            return os.path.join(root, top, *parts)

        packages = set()
        for parts in (list(current), list(source)):
            for i in range(len(parts) + 1):
                packages.add(tuple(parts[:i]))
        body = {p: ["from dataclasses import dataclass", "from typing import Dict, List, Optional", "import betterproto", ""] for p in packages}
        if kind == "enum":
            body[tuple(source)] += ["class %s(betterproto.Enum):" % pyname, "    ZERO = 0", "    ONE = 1", ""]
        else:
            body[tuple(source)] += ["@dataclass(eq=False, repr=False)", "class %s(betterproto.Message):" % pyname, "    x: int = betterproto.int32_field(1)", ""]
        fld = "betterproto.enum_field(%d)" if kind == "enum" else "betterproto.message_field(%d)"
        lines = ["@dataclass(eq=False, repr=False)", "class User(betterproto.Message):"]
        for i, fname in enumerate(field_names):
            lines.append("    %s: %s = %s" % (fname, ref, fld % (i + 1)))
        body[tuple(current)] += lines + [""] + sorted(imports) + [""]
        for p in packages:
            os.makedirs(pkg_dir(p), exist_ok=True)
            with open(os.path.join(pkg_dir(p), "__init__.py"), "w") as f:
                f.write("\n".join(body[p]) + "\n")
        sys.path.insert(0, root)
        importlib.invalidate_caches()
        try:
            cur = importlib.import_module(".".join([top] + list(current)))
            src = importlib.import_module(".".join([top] + list(source)))
            target = getattr(src, pyname)
            out = {}
            for fname in field_names:
                try:
                    out[fname] = cur.User._cls_for(cur.User.__dataclass_fields__[fname])
                except Exception as e:  # resolution failed: reported, not raised
                    out[fname] = e
            return out, target
        finally:
            sys.path.remove(root)
            for name in [n for n in sys.modules if n == top or n.startswith(top + ".")]:
                del sys.modules[name]
    finally:
        shutil.rmtree(root, ignore_errors=True)
