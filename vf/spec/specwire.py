"""specwire: a short, independent reference model of the proto3 wire format, written over
the same symbolic values as the implementation (so `impl == spec for all values` is one
solver query per path).  Validated against google.protobuf at every path's witness.

Encoder side works on plain Python ints / proxies with ordinary arithmetic; it never
calls into betterproto.
"""
from ..sym import SymBytes, SymInt, SymBool, Unsupported

M64 = (1 << 64) - 1

VARINT_KINDS = ("int32", "int64", "uint32", "uint64", "sint32", "sint64", "bool", "enum")
FIXED32_KINDS = ("fixed32", "sfixed32", "float")
FIXED64_KINDS = ("fixed64", "sfixed64", "double")
LEN_KINDS = ("string", "bytes", "message", "map")
PACKABLE = VARINT_KINDS + FIXED32_KINDS + FIXED64_KINDS

RANGES = {
    "int32": (-(1 << 31), (1 << 31) - 1),
    "sint32": (-(1 << 31), (1 << 31) - 1),
    "sfixed32": (-(1 << 31), (1 << 31) - 1),
    "int64": (-(1 << 63), (1 << 63) - 1),
    "sint64": (-(1 << 63), (1 << 63) - 1),
    "sfixed64": (-(1 << 63), (1 << 63) - 1),
    "uint32": (0, (1 << 32) - 1),
    "fixed32": (0, (1 << 32) - 1),
    "uint64": (0, (1 << 64) - 1),
    "fixed64": (0, (1 << 64) - 1),
    "enum": (-(1 << 31), (1 << 31) - 1),
}


def wire_type(kind):
    if kind in VARINT_KINDS:
        return 0
    if kind in FIXED64_KINDS:
        return 1
    if kind in FIXED32_KINDS:
        return 5
    return 2


def _b(x):
    """one byte (int or proxy in 0..255) -> SymBytes"""
    if isinstance(x, int):
        return SymBytes([x])
    return x.to_bytes(1, "little")


def cat(*parts):
    out = SymBytes([])
    for p in parts:
        out = out + p
    return out


def varint_len(u):
    """number of base-128 digits of u in [0, 2**64) -- forks on the 10 length classes"""
    n = 1
    while n < 10 and u >= (1 << (7 * n)):
        n += 1
    return n


def varint(u, pad=0, limit=10):
    """canonical (pad == 0) or padded base-128 encoding of u in [0, 2**64); padding never
    makes the encoding longer than `limit` bytes (tags and lengths are 32-bit: 5 bytes)"""
    n = varint_len(u)
    pad = max(0, min(pad, limit - n))
    out = SymBytes([])
    total = n + pad
    for i in range(total):
        digit = (u >> (7 * i)) & 0x7F if i < 10 else 0
        if i < total - 1:
            digit = digit | 0x80
        out = out + _b(digit)
    return out


def u64(x):
    """two's complement image of a signed 64-bit int"""
    return x & M64


def zigzag(x, bits):
    # (n << 1) ^ (n >> (bits-1)) on two's complement of width `bits`
    m = (1 << bits) - 1
    return ((x << 1) ^ (x >> (bits - 1))) & m


def unzigzag(u):
    return (u >> 1) ^ (-(u & 1))


def fixed(x, nbytes):
    u = x & ((1 << (8 * nbytes)) - 1)
    out = SymBytes([])
    for i in range(nbytes):
        out = out + _b((u >> (8 * i)) & 0xFF)
    return out


def tag(number, wt, pad=0):
    return varint((number << 3) | wt, pad, 5)


def scalar_payload(kind, v, pad=0):
    """payload bytes of one scalar (no tag, no length); pad: padding bytes of a value varint (non-minimal but legal, at most 10 bytes)"""
    if kind in ("int32", "int64", "enum"):
        return varint(u64(v), pad)
    if kind in ("uint32", "uint64"):
        return varint(v, pad)
    if kind == "sint32":
        return varint(zigzag(v, 32), pad)
    if kind == "sint64":
        return varint(zigzag(v, 64), pad)
    if kind == "bool":
        return varint(_bool_int(v), pad) if pad else _b(_bool_int(v))
    if kind in ("fixed32", "sfixed32"):
        return fixed(v, 4)
    if kind in ("fixed64", "sfixed64"):
        return fixed(v, 8)
    if kind == "double":
        return _f64(v)
    if kind == "float":
        return _f32(v)
    if kind == "string":
        return v.encode("utf-8") if not isinstance(v, str) or getattr(v, "_vf_sym", False) else SymBytes(list(v.encode("utf-8")))
    if kind == "bytes":
        return SymBytes.lift(v)
    raise Unsupported("scalar_payload(%s)" % kind)


def _bool_int(v):
    if isinstance(v, SymBool):
        return v + 0
    return 1 if v else 0


def _f64(v):
    from ..symfloat import SymFloat

    return SymFloat.coerce(v).pack64()


def _f32(v):
    from ..symfloat import SymFloat

    return SymFloat.coerce(v).pack32()


def field(number, kind, v, pad=0):
    """one complete field occurrence: tag [+ length] + payload"""
    wt = wire_type(kind)
    p = scalar_payload(kind, v, pad)
    if wt == 2:
        return cat(tag(number, 2, pad), varint(len(p), pad, 5), p)
    return cat(tag(number, wt, pad), p)


def len_field(number, payload, pad=0):
    payload = SymBytes.lift(payload)
    return cat(tag(number, 2, pad), varint(len(payload), pad, 5), payload)


def length_prefixed(payload):
    payload = SymBytes.lift(payload)
    return cat(varint(len(payload)), payload)


# ---------------------------------------------------------------------------
# strict decoder (spec side)


class SpecDecodeError(Exception):
    pass


class SpecGroup(SpecDecodeError):
    """a (proto2) group marker: the spec neither requires rejection nor acceptance"""


def read_varint(buf, pos):
    """(value, newpos) -- at most 10 bytes, value taken modulo 2**64"""
    val = 0
    for i in range(10):
        if pos + i >= len(buf):
            raise SpecDecodeError("truncated varint")
        b = buf[pos + i]
        val = val | ((b & 0x7F) << (7 * i))
        if not (b & 0x80):
            return val & M64, pos + i + 1
    raise SpecDecodeError("varint longer than 10 bytes")


def split_fields(buf):
    """[(number, wire_type, payload, raw)] -- payload: int for varint, SymBytes otherwise"""
    buf = SymBytes.lift(buf)
    out = []
    pos = 0
    while pos < len(buf):
        start = pos
        key, pos = read_varint(buf, pos)
        number, wt = key >> 3, key & 7
        # fork on the wire type
        if wt == 0:
            wtc = 0
            val, pos = read_varint(buf, pos)
        elif wt == 1:
            wtc = 1
            if pos + 8 > len(buf):
                raise SpecDecodeError("truncated fixed64")
            val, pos = buf[pos : pos + 8], pos + 8
        elif wt == 2:
            wtc = 2
            ln, pos = read_varint(buf, pos)
            if ln > len(buf) - pos:
                raise SpecDecodeError("truncated length-delimited")
            ln = int(ln)
            val, pos = buf[pos : pos + ln], pos + ln
        elif wt == 5:
            wtc = 5
            if pos + 4 > len(buf):
                raise SpecDecodeError("truncated fixed32")
            val, pos = buf[pos : pos + 4], pos + 4
        elif wt == 3 or wt == 4:
            raise SpecGroup("group marker")
        else:
            raise SpecDecodeError("invalid wire type")
        if number == 0:
            raise SpecDecodeError("field number 0")
        out.append((number, wtc, val, buf[start:pos]))
    return out


def le_int(b, signed=False):
    """little-endian integer of a bytes value (proxy aware)"""
    n = len(b)
    v = 0
    for i in range(n):
        v = v | (b[i] << (8 * i))
    if signed:
        sign = 1 << (8 * n - 1)
        v = (v ^ sign) - sign
    return v


WIDE32 = []  # set when a uint32 / sint32 field receives a varint above 32 bits (outside the claim)


def decode_scalar(kind, wt, val):
    """typed value of a payload received with wire type wt for declared kind"""
    if kind in VARINT_KINDS:
        if wt != 0:
            raise SpecDecodeError("wire type mismatch")
        if kind in ("uint32", "sint32") and val > 0xFFFFFFFF:
            WIDE32.append(kind)
        if kind == "int32" or kind == "enum":
            v = val & 0xFFFFFFFF
            return (v ^ (1 << 31)) - (1 << 31)
        if kind == "int64":
            return (val ^ (1 << 63)) - (1 << 63)
        if kind == "uint32":
            return val & 0xFFFFFFFF
        if kind == "uint64":
            return val
        if kind == "sint32":
            return unzigzag(val & 0xFFFFFFFF)
        if kind == "sint64":
            return unzigzag(val)
        if kind == "bool":
            return val != 0
    if kind in FIXED32_KINDS:
        if wt != 5:
            raise SpecDecodeError("wire type mismatch")
        if kind == "fixed32":
            return le_int(val)
        if kind == "sfixed32":
            return le_int(val, True)
        from ..symfloat import SymFloat

        return SymFloat.unpack32(SymBytes.lift(val))
    if kind in FIXED64_KINDS:
        if wt != 1:
            raise SpecDecodeError("wire type mismatch")
        if kind == "fixed64":
            return le_int(val)
        if kind == "sfixed64":
            return le_int(val, True)
        from ..symfloat import SymFloat

        return SymFloat.unpack64(SymBytes.lift(val))
    if wt != 2:
        raise SpecDecodeError("wire type mismatch")
    if kind == "string":
        try:
            return SymBytes.lift(val).decode("utf-8")
        except UnicodeDecodeError:
            raise SpecDecodeError("invalid utf-8")
    if kind == "bytes":
        return val
    raise Unsupported("decode_scalar(%s)" % kind)
