"""specjson: the canonical proto3 JSON mapping at Python-object level (what json.dumps is
given / what json.loads returns), written over value trees (see specmsg)."""
from .. import shims, sym
from ..sym import B, SymBool, SymBytes, SymInt, Unsupported, mkb, sym_and, sym_not, sym_or
from ..shapes import default_of
from . import specmsg as sm
from . import specwire as sw

INT64_KINDS = ("int64", "uint64", "sint64", "fixed64", "sfixed64")


def json_name(name):
    """protoc's ToJsonName: drop underscores, upper-case the letter that follows one"""
    out = []
    up = False
    for ch in name:
        if ch == "_":
            up = True
        elif up:
            out.append(ch.upper())
            up = False
        else:
            out.append(ch)
    return "".join(out)


def _isnan(v):
    if getattr(v, "_vf_float", False):
        return B(v.isnan())
    return v != v


def _isinf(v, sign):
    if getattr(v, "_vf_float", False):
        import z3

        f = v.fp
        return B(z3.And(z3.fpIsInf(f), z3.fpIsNegative(f) if sign < 0 else z3.fpIsPositive(f)))
    return v == float("inf") * sign


def scalar_json(kind, v, enum=None):
    if kind in INT64_KINDS:
        return str(v)  # decimal string (SymDecStr for a symbolic int)
    if kind in ("float", "double"):
        if _isnan(v):
            return "NaN"
        if _isinf(v, 1):
            return "Infinity"
        if _isinf(v, -1):
            return "-Infinity"
        return v
    if kind == "bytes":
        if isinstance(v, SymBytes) and not v.is_concrete():
            return shims.b64encode(v).decode("utf8")
        import base64

        return base64.b64encode(v.concrete() if isinstance(v, SymBytes) else bytes(v)).decode("ascii")
    if kind == "enum":
        for n, num in enum.members:
            if num == v:
                return n
        return v  # a number the enum does not define is written as the number
    return v


def map_key_json(kind, k, native):
    if native:
        return k
    if kind == "bool":
        return "true" if k else "false"
    if kind == "string":
        return k
    return str(k)


def to_json(cat, shape, val, casing="camel", native_map_keys=False, native_wrappers=False, native_map_values=False):
    """canonical JSON object (python dict) of a value tree (native_*: betterproto's dialect, in
    which map keys and wrapped values keep their Python type)"""
    s = cat.shapes[shape] if isinstance(shape, str) else shape
    out = {}
    for f in s.fields:
        if f.name not in val:
            continue
        v = val[f.name]
        key = json_name(f.name) if casing == "camel" else f.name
        enum = cat.enums.get(f.enum) if f.enum else None

        def one(x):
            if f.wraps:
                return x if native_wrappers else scalar_json(f.wraps, x)
            if f.kind == "message":
                return to_json(cat, f.msg, x, casing, native_map_keys, native_wrappers, native_map_values)
            return scalar_json(f.kind, x, enum)

        if f.label == "repeated":
            if len(v):
                out[key] = [one(x) for x in v]
        elif f.label == "map":
            pairs = sm.map_normal(f, list(v))
            if pairs:
                out[key] = {map_key_json(f.key, k, native_map_keys): (x if native_map_values and f.kind != "message" else one(x)) for k, x in pairs}
        elif f.wraps or f.group or f.label == "optional":
            out[key] = one(v)
        elif f.kind == "message":
            if len([n for n in v if not n.startswith("__")]) or v.get("__received__"):
                out[key] = one(v)
        else:
            if not B(sm.is_default(f.kind, v)):
                out[key] = one(v)
    return out


def json_serialisable(d):
    """structural JSON-serialisability: dict with str keys / list / str / int / float / bool / None"""
    if isinstance(d, bytes):
        return False
    if d is None or isinstance(d, (bool, SymBool, int, SymInt, float, str)):
        return True
    if isinstance(d, list):
        return all(json_serialisable(x) for x in d)
    if isinstance(d, dict):
        # json.dumps accepts str, int, float, bool and None keys (and writes them as strings)
        return all((k is None or isinstance(k, (str, int, float, bool, SymInt, SymBool))) and not isinstance(k, bytes) and json_serialisable(v) for k, v in d.items())
    return False


def json_equal(a, b):
    """structural equality with symbolic leaves (SymBool / bool)"""
    if isinstance(a, dict) or isinstance(b, dict):
        if not (isinstance(a, dict) and isinstance(b, dict)) or len(a) != len(b):
            return False
        parts = []
        for k, v in a.items():
            # keys: concrete strs in this model, except map keys which may be symbolic
            hit = []
            for k2, v2 in b.items():
                ke = _leaf_eq(k, k2)
                if ke is False:
                    continue
                hit.append(sym_and(ke, json_equal(v, v2)))
            parts.append(sym_or(*hit))
        return sym_and(*parts)
    if isinstance(a, list) or isinstance(b, list):
        if not (isinstance(a, list) and isinstance(b, list)) or len(a) != len(b):
            return False
        return sym_and(*[json_equal(x, y) for x, y in zip(a, b)])
    return _leaf_eq(a, b)


def _leaf_eq(a, b):
    if a is None or b is None:
        return a is None and b is None
    fa, fb = isinstance(a, float), isinstance(b, float)
    if fa or fb:
        if isinstance(a, (bool, SymBool)) or isinstance(b, (bool, SymBool)):
            return False
        if not (fa and fb):
            # JSON does not distinguish 1 from 1.0
            if isinstance(a, (int, float)) and isinstance(b, (int, float)) and not getattr(a, "_vf_sym", False) and not getattr(b, "_vf_sym", False):
                return a == b
            return False
        return sm.veq("double", a, b)
    ba, bb = isinstance(a, (bool, SymBool)), isinstance(b, (bool, SymBool))
    if ba or bb:
        return (a == b) if (ba and bb) else False
    sa, sb = isinstance(a, str), isinstance(b, str)
    if sa or sb:
        if not (sa and sb):
            return False
        r = a == b
        return False if r is NotImplemented else r
    if isinstance(a, (int, SymInt)) and isinstance(b, (int, SymInt)):
        return a == b
    return False
