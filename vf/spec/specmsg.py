"""Message-level spec model over value trees.

A *value tree* is the abstract proto3 value of a message of some shape:
    {"field": value, ...}            only fields that were assigned appear
      singular scalar / enum          value (a proxy or a concrete value; enum: its number)
      optional                        value (absence = key missing)
      oneof member                    value (at most one member of a group appears)
      repeated                        [values]
      map                             [(k, v), ...]   insertion order, duplicates allowed (last wins)
      message (singular/optional)     sub value tree; "__received__": True marks an
                                      empty-but-present message (decoded from the wire)
      wrapper                         the wrapped scalar
    "__unknown__": bytes              raw unknown fields carried by the message

A *canon* is the normal form of what a message denotes (defaults filled in, last-wins
applied, presence made explicit); it is what all views are compared on:
    {"f": {name: entry}, "g": {group: selected member name or ""}, "u": bytes}
"""
from .. import sym
from ..sym import B, SymBool, SymBytes, SymInt, Unsupported, mkb, sym_and, sym_not, sym_or
from ..shapes import default_of
from . import specwire as sw


# ---------------------------------------------------------------------------
# leaf equality


def veq(kind, a, b):
    """equality of two leaf values of a kind (a SymBool or a bool)"""
    if kind in ("float", "double"):
        if getattr(a, "_vf_float", False) or getattr(b, "_vf_float", False):
            import z3

            from ..symfloat import SymFloat

            fa, fb = SymFloat.coerce(a).fp, SymFloat.coerce(b).fp
            return mkb(z3.Or(z3.fpEQ(fa, fb), z3.And(z3.fpIsNaN(fa), z3.fpIsNaN(fb))))
        if not isinstance(a, (int, float)) or not isinstance(b, (int, float)):
            return False
        return a == b or (a != a and b != b)
    if kind == "bool":
        if isinstance(a, (SymBool, bool)) and isinstance(b, (SymBool, bool)):
            return a == b
        return False
    if kind == "bytes":
        la, lb = SymBytes.lift(a), SymBytes.lift(b)
        if la is None or lb is None:
            return False
        return la == lb
    if kind == "string":
        if not isinstance(a, str) or not isinstance(b, str):
            return False
        r = a == b
        return False if r is NotImplemented else r
    # integers / enums
    if isinstance(a, (SymBool, bool)) or isinstance(b, (SymBool, bool)):
        return False
    if not isinstance(a, (int, SymInt)) or not isinstance(b, (int, SymInt)):
        return False
    return a == b


def is_default(kind, v):
    if kind in ("float", "double"):
        return veq(kind, v, 0.0)  # numeric: -0.0 counts as default here (see C16 finding for the bit-level view)
    if kind == "bool":
        return sym_not(v) if isinstance(v, SymBool) else (v is False or v == 0)
    if kind in ("string", "bytes"):
        return len(v) == 0
    return v == 0


# ---------------------------------------------------------------------------
# canon of a value tree (the meaning of the abstract value)


def map_normal(f, pairs):
    """last-wins normal form of a list of (k, v): keys pairwise distinct on this path (forks)"""
    out = []
    for k, v in pairs:
        for i, (k2, _) in enumerate(out):
            if B(veq(f.key, k, k2)):
                out[i] = (k2, v)
                break
        else:
            out.append((k, v))
    return out


def canon_of_value(cat, shape, val):
    s = cat.shapes[shape] if isinstance(shape, str) else shape
    c = {"f": {}, "g": {g: "" for g in s.groups()}, "u": val.get("__unknown__", b"")}
    for f in s.fields:
        has = f.name in val
        v = val.get(f.name)
        if f.group:
            if has:
                c["g"][f.group] = f.name
                c["f"][f.name] = canon_of_value(cat, f.msg, v) if f.kind == "message" and not f.wraps else v
            continue
        if f.label == "repeated":
            items = list(v) if has else []
            c["f"][f.name] = [canon_of_value(cat, f.msg, x) for x in items] if f.kind == "message" else items
        elif f.label == "map":
            pairs = map_normal(f, list(v) if has else [])
            c["f"][f.name] = [(k, canon_of_value(cat, f.msg, x) if f.kind == "message" else x) for k, x in pairs]
        elif f.wraps:
            c["f"][f.name] = v if has else None
        elif f.kind == "message":
            if has and (len([k for k in v if not k.startswith("__")]) or v.get("__received__") or f.label == "optional"):
                c["f"][f.name] = canon_of_value(cat, f.msg, v)
            else:
                c["f"][f.name] = None
        elif f.label == "optional":
            c["f"][f.name] = v if has else None
        else:
            c["f"][f.name] = v if has else default_of(f.kind)
    return c


def canon_equal(cat, shape, a, b, unknown=True):
    """conjunction of leaf equalities; structural differences -> False"""
    s = cat.shapes[shape] if isinstance(shape, str) else shape
    if a["g"] != b["g"]:
        return False
    parts = []
    if unknown:
        parts.append(SymBytes.lift(a["u"]) == SymBytes.lift(b["u"]))
    for f in s.fields:
        if f.group and a["g"][f.group] != f.name:
            continue
        x, y = a["f"].get(f.name), b["f"].get(f.name)

        def one(x, y):
            if f.kind == "message" and not f.wraps:
                if (x is None) != (y is None):
                    return False
                return True if x is None else canon_equal(cat, f.msg, x, y, unknown)
            if (x is None) != (y is None):
                return False
            return True if x is None else veq(f.wraps or f.kind, x, y)

        if f.label == "repeated":
            if len(x) != len(y):
                return False
            parts += [one(p, q) for p, q in zip(x, y)]
        elif f.label == "map":
            if len(x) != len(y):
                return False
            # unordered comparison: every entry of x has an equal entry in y (keys are distinct in both)
            for k, v in x:
                parts.append(sym_or(*[sym_and(veq(f.key, k, k2), one(v, v2)) for k2, v2 in y]))
        else:
            parts.append(one(x, y))
        if parts and parts[-1] is False:
            return False
    return sym_and(*parts)


# ---------------------------------------------------------------------------
# betterproto view


def to_bp(mod, cat, shape, val, how="ctor"):
    """build the betterproto message for a value tree through the public API"""
    s = cat.shapes[shape]
    cls = getattr(mod, s.name)
    kw = {}
    for f in s.fields:
        if f.name not in val:
            continue
        kw[f.name] = _bp_value(mod, cat, f, val[f.name])
    if val.get("__received__") and not kw:
        m = cls().parse(b"")
    elif how == "ctor":
        m = cls(**kw)
    else:
        m = cls()
        for k, v in kw.items():
            setattr(m, k, v)
    u = val.get("__unknown__")
    if u is not None and len(u):
        # unknown fields can only arrive from the wire
        u = sym.wire(SymBytes.lift(u))
        m = cls().parse(bytes(m) + u) if kw else cls().parse(u)
    return m


def _bp_value(mod, cat, f, v):
    def one(x):
        if f.wraps:
            return x
        if f.kind == "message":
            return to_bp(mod, cat, f.msg, x)
        if f.kind == "enum":
            return getattr(mod, f.enum).try_value(x)
        return x

    if f.label == "repeated":
        return [one(x) for x in v]
    if f.label == "map":
        d = {}
        for k, x in v:
            d[k] = one(x)  # symbolic keys: dict insertion decides equality through the solver
        return d
    return one(v)


def canon_of_bp(cat, shape, m):
    """what a betterproto message denotes, read through its public API"""
    import betterproto

    s = cat.shapes[shape] if isinstance(shape, str) else shape
    u = getattr(m, "_unknown_fields", None)
    if u is None:
        # no such attribute (the representation is not part of any property): read the unknown fields off the message's own encoding
        u = spec_decode(cat, s.name, bytes(m))["u"]
    c = {"f": {}, "g": {}, "u": u}

    def one(f, x):
        if f.wraps:
            return x
        if f.kind == "message":
            return canon_of_bp(cat, f.msg, x)
        if f.kind == "enum":
            return _enum_number(x)
        return x

    for g in s.groups():
        name, _ = betterproto.which_one_of(m, g)
        c["g"][g] = name
    for f in s.fields:
        if f.group:
            if c["g"][f.group] == f.name:
                c["f"][f.name] = one(f, getattr(m, f.name))
            continue
        x = getattr(m, f.name)
        if f.label == "repeated":
            c["f"][f.name] = [one(f, e) for e in x]
        elif f.label == "map":
            c["f"][f.name] = [(k, one(f, e)) for k, e in x.items()]
        elif f.wraps or f.label == "optional":
            c["f"][f.name] = None if x is None else one(f, x)
        elif f.kind == "message":
            c["f"][f.name] = canon_of_bp(cat, f.msg, x) if betterproto.serialized_on_wire(x) else None
        else:
            c["f"][f.name] = one(f, x)
    return c


def _enum_number(x):
    if isinstance(x, (SymInt, SymBool)):
        return x
    return int(x)


# ---------------------------------------------------------------------------
# spec encoder (with variation knobs) and strict spec decoder


class Knobs:
    """legal re-encodings of the same message (C02).  All default to the canonical form."""

    def __init__(self, order=None, unpacked=(), split=None, pad=0, dup=None, inject=None):
        self.order = order  # permutation of field indices, or None (declaration order)
        self.unpacked = set(unpacked)  # names of packable repeated fields emitted unpacked
        self.split = split or {}  # name -> split point of a packed run
        self.pad = pad  # padding bytes in every tag / length varint
        self.dup = dup or {}  # name -> earlier value emitted before the real one (last wins)
        self.inject = inject or []  # [(position, raw unknown bytes)]


def spec_encode(cat, shape, val, knobs=None):
    s = cat.shapes[shape] if isinstance(shape, str) else shape
    k = knobs or Knobs()
    chunks = []
    for f in s.fields:
        if f.name not in val:
            chunks.append(SymBytes([]))
            continue
        out = SymBytes([])
        if f.name in k.dup:
            out = out + _enc_field(cat, f, k.dup[f.name], k, force=True)
        out = out + _enc_field(cat, f, val[f.name], k, force=f.name in k.dup)
        chunks.append(out)
    order = k.order if k.order is not None else range(len(chunks))
    out = SymBytes([])
    inj = sorted(k.inject, key=lambda t: t[0])
    for pos, i in enumerate(order):
        for p, raw in inj:
            if p == pos:
                out = out + raw
        out = out + chunks[i]
    for p, raw in inj:
        if p >= len(chunks):
            out = out + raw
    u = val.get("__unknown__")
    if u is not None:
        out = out + u
    return out


def _enc_one(cat, f, x, k, kind=None):
    """payload bytes of one element"""
    kind = kind or f.kind
    if f.wraps:
        inner = SymBytes([]) if B(is_default(f.wraps, x)) else sw.field(1, f.wraps, x, k.pad)
        return inner
    if kind == "message":
        return spec_encode(cat, f.msg, x, Knobs(pad=k.pad))  # order/dup/inject knobs apply to the top level only
    return sw.scalar_payload(kind, x, k.pad)


def _enc_field(cat, f, v, k, force=False):
    pad = k.pad
    if f.label == "repeated":
        if not len(v):
            return SymBytes([])
        if f.kind in sw.PACKABLE and f.name not in k.unpacked:
            cut = k.split.get(f.name)
            runs = [v] if cut is None else [v[:cut], v[cut:]]
            out = SymBytes([])
            for run in runs:
                if not run and cut is None:
                    continue
                payload = sw.cat(*[sw.scalar_payload(f.kind, x, pad) for x in run])
                out = out + sw.len_field(f.number, payload, pad)
            return out
        out = SymBytes([])
        for x in v:
            if sw.wire_type(f.kind) == 2:
                out = out + sw.len_field(f.number, _enc_one(cat, f, x, k), pad)
            else:
                out = out + sw.tag(f.number, sw.wire_type(f.kind), pad) + sw.scalar_payload(f.kind, x, pad)
        return out
    if f.label == "map":
        out = SymBytes([])
        for key, x in v:
            ek = SymBytes([]) if B(is_default(f.key, key)) else sw.field(1, f.key, key, pad)
            if f.kind == "message":
                ev = sw.len_field(2, spec_encode(cat, f.msg, x, Knobs(pad=k.pad)), pad)
            elif B(is_default(f.kind, x)):
                ev = SymBytes([])
            else:
                ev = sw.field(2, f.kind, x, pad)
            out = out + sw.len_field(f.number, ek + ev, pad)
        return out
    if f.wraps or f.kind == "message":
        if f.kind == "message" and not f.wraps and not f.group and f.label != "optional":
            present = len([n for n in v if not n.startswith("__")]) or v.get("__received__")
            if not present and not force:
                return SymBytes([])
        return sw.len_field(f.number, _enc_one(cat, f, v, k), pad)
    # scalar / enum
    explicit = f.group or f.label == "optional" or force
    if not explicit and B(is_default(f.kind, v)):
        return SymBytes([])
    if sw.wire_type(f.kind) == 2:
        return sw.len_field(f.number, sw.scalar_payload(f.kind, v, pad), pad)
    return sw.tag(f.number, sw.wire_type(f.kind), pad) + sw.scalar_payload(f.kind, v, pad)


def spec_decode(cat, shape, buf, notes=None):
    """strict proto3 decoder: bytes -> canon.  Raises specwire.SpecDecodeError on malformed
    input.  A known number with a non-fitting wire type goes to the unknown fields.
    notes (list) receives "dup-message" when a singular message field occurs twice (the
    reference merges the occurrences; this model keeps the last)."""
    s = cat.shapes[shape] if isinstance(shape, str) else shape
    by_number = {f.number: f for f in s.fields}
    vals = {}
    unknown = SymBytes([])
    seen_groups = {g: "" for g in s.groups()}
    for number, wt, payload, raw in sw.split_fields(buf):
        f = None
        for n, cand in by_number.items():
            if number == n:  # fork on the field number
                f = cand
                break
        if f is None:
            unknown = unknown + raw
            continue
        kind = f.wraps and "message" or f.kind
        if f.label == "repeated" and f.kind in sw.PACKABLE and wt == 2:
            items = vals.setdefault(f.name, [])
            items += _unpack(f.kind, payload)
            continue
        expect = 2 if (f.label == "map" or kind == "message") else sw.wire_type(f.kind)
        if wt != expect:
            unknown = unknown + raw
            continue
        if f.label == "map":
            ek, ev = default_of(f.key), (None if f.kind == "message" else default_of(f.kind))
            for n2, wt2, p2, _ in sw.split_fields(payload):
                if n2 == 1 and wt2 == sw.wire_type(f.key):
                    ek = sw.decode_scalar(f.key, wt2, p2)
                elif n2 == 2:
                    if f.kind == "message" and wt2 == 2:
                        if ev is not None and notes is not None:
                            notes.append("dup-message")
                        ev = spec_decode(cat, f.msg, p2, notes)
                    elif f.kind != "message" and wt2 == sw.wire_type(f.kind):
                        ev = _dec_enum(cat, f, sw.decode_scalar(f.kind, wt2, p2))
            if ev is None:
                ev = spec_decode(cat, f.msg, SymBytes([]), notes)
            vals.setdefault(f.name, []).append((ek, ev))
            continue
        if f.wraps:
            x = default_of(f.wraps)
            for n2, wt2, p2, _ in sw.split_fields(payload):
                if n2 == 1 and wt2 == sw.wire_type(f.wraps):
                    x = sw.decode_scalar(f.wraps, wt2, p2)
        elif f.kind == "message":
            if f.label != "repeated" and f.name in vals and notes is not None:
                notes.append("dup-message")
            x = spec_decode(cat, f.msg, payload, notes)
        else:
            x = _dec_enum(cat, f, sw.decode_scalar(f.kind, wt, payload))
        if f.label == "repeated":
            vals.setdefault(f.name, []).append(x)
        else:
            if f.group:
                old = seen_groups[f.group]
                if old and old != f.name:
                    vals.pop(old, None)
                seen_groups[f.group] = f.name
            vals[f.name] = x
    c = {"f": {}, "g": seen_groups, "u": unknown}
    for f in s.fields:
        has = f.name in vals
        if f.group:
            if has:
                c["f"][f.name] = vals[f.name]
        elif f.label == "repeated":
            c["f"][f.name] = vals.get(f.name, [])
        elif f.label == "map":
            c["f"][f.name] = map_normal(f, vals.get(f.name, []))
        elif f.wraps or f.kind == "message" or f.label == "optional":
            c["f"][f.name] = vals.get(f.name)
        else:
            c["f"][f.name] = vals[f.name] if has else default_of(f.kind)
    return c


def _dec_enum(cat, f, x):
    return x


def _unpack(kind, payload):
    payload = SymBytes.lift(payload)
    out = []
    pos = 0
    wt = sw.wire_type(kind)
    while pos < len(payload):
        if wt == 0:
            v, pos = sw.read_varint(payload, pos)
            out.append(sw.decode_scalar(kind, 0, v))
        else:
            n = 4 if wt == 5 else 8
            if pos + n > len(payload):
                raise sw.SpecDecodeError("truncated packed element")
            out.append(sw.decode_scalar(kind, wt, payload[pos : pos + n]))
            pos += n
    return out


# ---------------------------------------------------------------------------
# reference view (google.protobuf), native only


def to_ref(ref, cat, shape, val):
    s = cat.shapes[shape]
    r = ref[s.name]()
    _fill_ref(ref, cat, s, r, val)
    return r


def _fill_ref(ref, cat, s, r, val):
    for f in s.fields:
        if f.name not in val:
            continue
        v = val[f.name]
        if f.label == "repeated":
            fld = getattr(r, f.name)
            for x in v:
                if f.kind == "message":
                    _fill_ref(ref, cat, cat.shapes[f.msg], fld.add(), x)
                else:
                    fld.append(x)
        elif f.label == "map":
            fld = getattr(r, f.name)
            for k, x in v:
                if f.kind == "message":
                    fld[k].Clear()
                    fld[k].SetInParent() if hasattr(fld[k], "SetInParent") else None
                    _fill_ref(ref, cat, cat.shapes[f.msg], fld[k], x)
                else:
                    fld[k] = x
        elif f.wraps:
            getattr(r, f.name).value = v
            getattr(r, f.name).SetInParent()
        elif f.kind == "message":
            sub = getattr(r, f.name)
            if len([n for n in v if not n.startswith("__")]) or v.get("__received__") or f.group or f.label == "optional":
                sub.SetInParent()
            _fill_ref(ref, cat, cat.shapes[f.msg], sub, v)
        else:
            setattr(r, f.name, v)
    u = val.get("__unknown__")
    if u:
        r.MergeFromString(bytes(u))


def canon_of_ref(cat, shape, r):
    """canon of a reference message (HasField / WhichOneof are the presence oracle)"""
    s = cat.shapes[shape] if isinstance(shape, str) else shape
    c = {"f": {}, "g": {}, "u": b"".join(_ref_unknown(r))}

    def one(f, x):
        if f.wraps:
            return x.value
        if f.kind == "message":
            return canon_of_ref(cat, f.msg, x)
        return x

    for g in s.groups():
        c["g"][g] = r.WhichOneof(g) or ""
    for f in s.fields:
        if f.group:
            if c["g"][f.group] == f.name:
                c["f"][f.name] = one(f, getattr(r, f.name))
            continue
        x = getattr(r, f.name)
        if f.label == "repeated":
            c["f"][f.name] = [one(f, e) for e in x]
        elif f.label == "map":
            c["f"][f.name] = [(k, one(f, x[k])) for k in x]
        elif f.wraps or f.kind == "message" or f.label == "optional":
            c["f"][f.name] = one(f, x) if r.HasField(f.name) else None
        else:
            c["f"][f.name] = x
    return c


def _ref_unknown(r):
    from google.protobuf import unknown_fields

    out = []
    try:
        for u in unknown_fields.UnknownFieldSet(r):
            wt, num, data = u.wire_type, u.field_number, u.data
            key = bytes(sw.varint((num << 3) | wt).items)
            if wt == 0:
                out.append(key + bytes(sw.varint(data & sw.M64).items))
            elif wt == 1:
                out.append(key + int(data).to_bytes(8, "little"))
            elif wt == 5:
                out.append(key + int(data).to_bytes(4, "little"))
            elif wt == 2:
                out.append(key + bytes(sw.varint(len(data)).items) + bytes(data))
    except Exception:
        pass
    return out
