"""CLI / orchestration: process pools, scheduling of path prefixes, native twins, known
findings, replay files, evidence."""
import argparse
import hashlib
import json
import multiprocessing as mp
import os
import subprocess
import sys
import time

ROOT = os.path.dirname(os.path.dirname(os.path.abspath(__file__)))
EXIT_OK, EXIT_VIOLATION, EXIT_HARNESS = 0, 1, 3


# ---------------------------------------------------------------------------
# worker-side task functions


def _unit(prop, unit_name, tier):
    from . import worker

    mod = worker.harness_module(prop)
    for n, fn, params in mod.units(tier):
        if n == unit_name:
            return fn, params
    raise KeyError(unit_name)


def task_explore(prop, unit_name, tier, prefix, max_paths, budget_s, regions, qtimeout_ms):
    from . import explore, worker

    worker.init_symbolic()
    fn, params = _unit(prop, unit_name, tier)
    worker.harness_setup(prop)
    agg = explore.explore(fn, params, prefix, regions, tier, max_paths, budget_s, qtimeout_ms)
    agg["encoded"] = explore.encoded_functions()
    agg["stubs"] = list(worker.STUBS)
    agg["unit"] = unit_name
    return agg


def task_native(prop, unit_name, tier, items, regions):
    """items: [{inputs, obs?}] -> per item {failed, obs_equal, excused}"""
    from . import explore, worker

    worker.init_native()
    fn, params = _unit(prop, unit_name, tier)
    out = []
    for it in items:
        r = explore.run_native(fn, params, it["inputs"], regions, tier)
        if it.get("obs") is not None and not r["aborted"]:
            r["obs_equal"] = json.dumps(r["obs"], sort_keys=True) == json.dumps(it["obs"], sort_keys=True)
            if not r["obs_equal"]:
                r["obs_sym"] = it["obs"]
        out.append(r)
    return unit_name, out


# ---------------------------------------------------------------------------


def _digest(obj):
    return hashlib.sha1(json.dumps(obj, sort_keys=True).encode()).hexdigest()[:12]


def repo_root():
    return os.environ.get("VERIF_REPO", "/repo")


def source_state(files):
    out = {}
    for f in files:
        p = os.path.join(repo_root(), "src", f)
        try:
            with open(p, "rb") as fh:
                out[f] = hashlib.sha256(fh.read()).hexdigest()[:16]
        except OSError:
            out[f] = None
    return out


class Runner:
    def __init__(self, prop, tier, seed=0, only=None, verbose=False, budget=None, nproc=None):
        from . import known, worker

        self.prop, self.tier, self.seed, self.verbose = prop, tier, seed, verbose
        self.mod = worker.harness_module(prop)
        self.units = [(n, fn, p) for n, fn, p in self.mod.units(tier) if not only or any(o in n for o in only)]
        self.budget = budget or getattr(self.mod, "BUDGET", {}).get(tier, 150 if tier == "quick" else 900)
        self.known = known.for_property(prop)
        self.active_known = []  # entries whose witness still fails on this tree
        self.nproc = nproc or int(os.environ.get("VERIF_NPROC", "0")) or max(2, (os.cpu_count() or 4))
        self.stats = {}
        self.harness_errors = []
        self.violations = []  # confirmed, unexcused
        self.known_hits = {}
        self.samples = []
        self.encoded = set()
        self.stubs = set()
        self.native_validated = 0
        self.native_reached = {}
        self.unexplored = 0
        self.witness_viol = {}
        self.divergences = []

    def log(self, *a):
        if self.verbose:
            print(*a, file=sys.stderr, flush=True)

    # -- known findings: replay the witnesses first ----------------------------
    def prepare_known(self, npool):
        from . import known

        pend = []
        for e in self.known:
            w = e.get("witness")
            if not w:
                continue
            regs = known.regions_for_unit([e], w["unit"])
            pend.append((e, npool.apply_async(task_native, (self.prop, w["unit"], self.tier, [{"inputs": w["inputs"]}], regs))))
        for e, ar in pend:
            try:
                _, res = ar.get(timeout=120)
            except Exception as ex:  # unit no longer exists, ...
                self.harness_errors.append("known finding %s: witness could not be replayed: %r" % (e["id"], ex))
                continue
            r = res[0]
            if any(l in known.labels_of(e) and rid == e["id"] for l, rid in map(tuple, r["excused"])):
                self.active_known.append(e)
                print("KNOWN-FINDING: property=%s %s [%s]" % (self.prop, e["what"], e["id"]), flush=True)
            else:
                self.log("known finding %s no longer reproduces at its witness; its region is not applied" % e["id"])

    def regions(self, unit_name):
        from . import known

        return known.regions_for_unit(self.active_known, unit_name)

    # -- main loop ---------------------------------------------------------------
    def run(self):
        t0 = time.time()
        ctx = mp.get_context("fork")
        nsym = max(1, self.nproc - 2)
        spool = ctx.Pool(nsym, maxtasksperchild=None)
        npool = ctx.Pool(2)
        try:
            self.prepare_known(npool)
            chunk_paths = 40 if self.tier == "quick" else 80
            chunk_s = 10.0
            qtimeout = 20000 if self.tier == "quick" else 60000
            deadline = t0 + self.budget
            queue = {n: [[]] for n, _, _ in self.units}  # unit -> pending prefixes
            inflight = {n: 0 for n, _, _ in self.units}
            unit_cap = getattr(self.mod, "UNIT_PATH_CAP", {}).get(self.tier, 1500 if self.tier == "quick" else 40000)
            running = []
            native_running = []
            for n, _, _ in self.units:
                self.stats[n] = {"paths": 0, "ok": 0, "infeasible": 0, "cut": 0, "inconclusive": 0, "queries": 0, "solver_s": 0.0,
                                 "checks": 0, "why": {}, "reached": {}, "excused": {}, "overwide": {}, "violations": 0, "tasks": 0, "unexplored": 0}  # fmt: skip
            cand = {}  # (unit, label) -> [violation records]
            while any(queue.values()) or running or native_running:
                now = time.time()
                while len(running) < nsym + 2 and now < deadline:
                    # fair share: the unit with the fewest paths explored / in flight goes first
                    cands = [n for n, q in queue.items() if q and self.stats[n]["paths"] < unit_cap]
                    if not cands:
                        break
                    n = min(cands, key=lambda u: self.stats[u]["paths"] + inflight[u] * chunk_paths)
                    q = queue[n]
                    pre = q.pop(min(range(len(q)), key=lambda i: len(q[i])))  # shallowest prefix first across tasks
                    left = max(1.0, deadline - now)
                    ar = spool.apply_async(task_explore, (self.prop, n, self.tier, pre, chunk_paths, min(chunk_s, left), self.regions(n), qtimeout))
                    ar.unit = n
                    inflight[n] += 1
                    running.append(ar)
                    self.stats[n]["tasks"] += 1
                if not running and (now >= deadline or all(not q or self.stats[n]["paths"] >= unit_cap for n, q in queue.items())):
                    for n, q in queue.items():
                        self.stats[n]["unexplored"] += len(q)
                        self.unexplored += len(q)
                        if q and now < deadline:
                            self.stats[n]["why"]["unit path cap"] = len(q)
                    queue = {n: [] for n in queue}
                progressed = False
                for ar in list(running):
                    if not ar.ready():
                        continue
                    running.remove(ar)
                    inflight[ar.unit] -= 1
                    progressed = True
                    try:
                        agg = ar.get()
                    except Exception as ex:
                        self.harness_errors.append("explore task failed: %r" % (ex,))
                        continue
                    n = agg["unit"]
                    st = self.stats[n]
                    for k in ("paths", "ok", "infeasible", "cut", "inconclusive", "queries", "solver_s", "checks"):
                        st[k] += agg[k]
                    for k in ("why", "reached", "excused", "overwide"):
                        for kk, c in agg[k].items():
                            st[k][kk] = st[k].get(kk, 0) + c
                    st.setdefault("kinds", {}).update(agg["kinds"])
                    self.encoded.update(tuple(x) for x in agg["encoded"])
                    self.stubs.update(agg["stubs"])
                    queue[n].extend(agg["leftover"])
                    for v in agg["violations"]:
                        st["violations"] += 1
                        key = (n, v["label"])
                        if len(cand.setdefault(key, [])) < 3 and v["inputs"] is not None:
                            cand[key].append(v)
                            native_running.append(("viol", v, npool.apply_async(task_native, (self.prop, n, self.tier, [{"inputs": v["inputs"]}], self.regions(n)))))
                    ws = agg["witnesses"]
                    if ws:
                        if len(self.samples) < 12:
                            self.samples.append({"unit": n, "inputs": ws[0]["inputs"]})
                        native_running.append(("wit", ws, npool.apply_async(task_native, (self.prop, n, self.tier, ws, self.regions(n)))))
                for item in list(native_running):
                    kind, payload, ar = item
                    if not ar.ready():
                        continue
                    native_running.remove(item)
                    progressed = True
                    try:
                        n, res = ar.get()
                    except Exception as ex:
                        self.harness_errors.append("native task failed: %r" % (ex,))
                        continue
                    if kind == "wit":
                        self.on_witnesses(n, payload, res)
                    else:
                        self.on_violation(n, payload, res[0])
                if not progressed:
                    time.sleep(0.02)
        finally:
            spool.terminate()
            npool.terminate()
        self.wall = time.time() - t0
        return self.finish()

    def on_witnesses(self, unit, ws, res):
        for w, r in zip(ws, res):
            if r["aborted"]:
                self.harness_errors.append("%s: native twin rejected a witness (assumption false natively): %s" % (unit, json.dumps(w["inputs"])[:300]))
                continue
            self.native_validated += 1
            if r.get("obs_equal") is False:
                # the symbolic run observed something else than the real code at the same input: the engine's model of
                # this path is wrong (silent concretisation); its symbolic verdict is dropped, the native one stands
                self.note_divergence(unit, "symbolic/native divergence at witness %s: sym=%s native=%s"
                                     % (json.dumps(w["inputs"])[:300], json.dumps(r["obs_sym"])[:300], json.dumps(r["obs"])[:300]))
            for label, detail in r["failed"]:
                if label.startswith("oracle:"):
                    self.harness_errors.append("%s: oracle disagreement: %s at witness %s %s" % (unit, label, json.dumps(w["inputs"])[:300], detail[-300:]))
                elif label == "harness-exception:HarnessBug" and "no value for input" in detail:
                    # the real code went on to ask for an input the symbolic run never reached: the symbolic run of this path stopped
                    # early (an operation the engine could not follow), so its verdict is dropped; nothing is known about the repository
                    self.note_divergence(unit, "the native run needs an input the symbolic path never created (%s) at witness %s" % (detail.strip().splitlines()[-1][-120:], json.dumps(w["inputs"])[:300]))
                elif label.startswith("harness-exception:"):
                    self.harness_errors.append("%s: %s at witness %s %s" % (unit, label, json.dumps(w["inputs"])[:300], detail[-300:]))
                else:
                    # the native twin is the ground truth: an assertion that fails on the real code at a concrete input is a
                    # violation, whether the assertion is witness-level only or the symbolic side believed it proved
                    v = {"label": label, "detail": detail, "inputs": w["inputs"]}
                    key = (unit, label)
                    if len(self.witness_viol.setdefault(key, [])) < 3:
                        self.witness_viol[key].append(v)
                        self.violations.append((unit, v, self.write_replay(unit, v, r)))
                    if not label.startswith("witness:") and not w.get("partial"):
                        self.note_divergence(unit, "assertion %s held symbolically but fails natively at %s" % (label, json.dumps(w["inputs"])[:300]))

    def note_divergence(self, unit, text):
        self.divergences.append("%s: %s" % (unit, text))
        st = self.stats.get(unit)
        if st is not None:
            st["why"]["engine model divergence (verdict of the path dropped)"] = st["why"].get("engine model divergence (verdict of the path dropped)", 0) + 1
            st["inconclusive"] += 1

    def on_violation(self, unit, v, r):
        failed = [l for l, _ in r["failed"]]
        if v["label"].startswith("harness-exception:"):
            self.harness_errors.append("%s: %s %s inputs=%s" % (unit, v["label"], v.get("detail", "")[-400:], json.dumps(v["inputs"])[:300]))
        elif v["label"] in failed:
            path = self.write_replay(unit, v, r)
            self.violations.append((unit, v, path))
        elif any(l == v["label"] for l, _ in map(tuple, r["excused"])):
            pass
        else:
            # the solver's counterexample does not reproduce on the real code: the encoding of this path is wrong, not the repository
            self.note_divergence(unit, "counterexample for %s does not replay on the real code: %s ; native failed=%s" % (v["label"], json.dumps(v["inputs"])[:400], failed))

    def write_replay(self, unit, v, r):
        d = os.path.join(ROOT, "replays", self.prop)
        os.makedirs(d, exist_ok=True)
        rec = {"property": self.prop, "unit": unit, "tier": self.tier, "label": v["label"], "inputs": v["inputs"],
               "detail": v.get("detail", ""), "native_failed": r["failed"], "native_obs": r["obs"]}  # fmt: skip
        safe = "".join(c if c.isalnum() else "_" for c in unit)[:60]
        path = os.path.join(d, "%s-%s-%s.json" % (safe, "".join(c if c.isalnum() else "_" for c in v["label"])[:30], _digest([unit, v["label"], v["inputs"]])))
        with open(path, "w") as f:
            json.dump(rec, f, indent=1, sort_keys=True)
        return path

    # -- verdict + evidence ------------------------------------------------------
    def finish(self):
        tot = {k: sum(s[k] for s in self.stats.values()) for k in ("paths", "ok", "infeasible", "cut", "inconclusive", "queries", "checks", "unexplored")}
        solver_s = sum(s["solver_s"] for s in self.stats.values())
        per_unit = {}
        for n, s in self.stats.items():
            if s["violations"]:
                verdict = "violation"
            elif s["inconclusive"] or s["unexplored"]:
                verdict = "inconclusive-in-part"
            elif s["ok"] == 0 and s["cut"] and all(w.startswith(("the representation differs", "proof device")) for w in s.get("why", {})):
                verdict = "argument-not-applicable"  # an inductive step whose representation invariant does not fit the current code: no claim, no alarm
            elif s["ok"] == 0:
                verdict = "vacuous"
            else:
                verdict = "holds-within-bound"
            per_unit[n] = {k: (round(v, 2) if isinstance(v, float) else v) for k, v in s.items() if k != "kinds"}
            per_unit[n]["verdict"] = verdict
            per_unit[n]["inputs"] = s.get("kinds", {})
        vac = [n for n, u in per_unit.items() if u["verdict"] == "vacuous"]
        for n in vac:
            self.harness_errors.append("%s: no path reached the end of the harness (vacuous)" % n)
        anchors = getattr(self.mod, "FILES", ["betterproto/__init__.py", "betterproto/enum.py", "betterproto/casing.py"])
        import z3

        ev = {
            "property_id": self.prop,
            "tier": self.tier,
            "seed": self.seed,
            "level": "model_checking",
            "wall_s": round(self.wall, 2),
            "violations": len(self.violations),
            "coverage": {
                "states": max(tot["paths"], 0),
                "transitions": max(tot["queries"], 0),
                "traces_validated_against_impl": self.native_validated,
                "samples": self.samples[:12] or [{"note": "no path completed"}],
                "exhaustive": tot["inconclusive"] == 0 and tot["unexplored"] == 0 and tot["cut"] == 0,
                "explanation": "states = symbolic paths explored (each decided by z3 for all values of the path); transitions = solver queries; "
                "traces_validated = path witnesses re-run natively on the untouched modules with identical observations",
                "technique": "bounded symbolic execution of the real code (SHADOW proxies + DESUGAR import hook) with z3; stateless DFS over solver-decided branches",
                "bounds": getattr(self.mod, "BOUNDS", {}).get(self.tier, ""),
                "outside_claim": getattr(self.mod, "OUTSIDE", ""),
                "paths": tot,
                "assertions_discharged": tot["checks"],
                "solver_time_s": round(solver_s, 2),
                "solver": "z3 " + z3.get_version_string(),
                "units": per_unit,
                "functions_encoded": ["%s:%s@%d" % f for f in sorted(self.encoded)],
                "source_sha256_16": source_state(anchors),
                "stubs": sorted(self.stubs),
                "known_findings_active": [e["id"] for e in self.active_known],
                "harness_errors": self.harness_errors[:20],
                "engine_model_divergences": self.divergences[:20],
                "repo": repo_root(),
            },
            "assumptions": list(getattr(self.mod, "ASSUMPTIONS", []))
            + [
                "Python int modelled as BV96 with per-path no-overflow obligations discharged by the solver",
                "environment models (vf/shims.py) validated by the native twin on every path and by ./check selftest",
                "spec models validated against google.protobuf at every path witness (labels oracle:*)",
            ],
        }
        evdir = os.path.join(ROOT, "evidence")
        if os.path.realpath(repo_root()) != "/repo":
            evdir = os.environ.get("VERIF_EVIDENCE_DIR", "/tmp/vf-scratch-evidence")  # runs against a scratch copy never touch the committed evidence
        os.makedirs(evdir, exist_ok=True)
        with open(os.path.join(evdir, "%s.json" % self.prop), "w") as f:
            json.dump(ev, f, indent=1, sort_keys=True)
        print(
            "%s %s: units=%d paths=%d (ok=%d infeasible=%d cut=%d inconclusive=%d unexplored-prefixes=%d) queries=%d assertions=%d "
            "native-twins=%d solver=%.1fs wall=%.1fs"
            % (self.prop, self.tier, len(self.units), tot["paths"], tot["ok"], tot["infeasible"], tot["cut"], tot["inconclusive"],
               tot["unexplored"], tot["queries"], tot["checks"], self.native_validated, solver_s, self.wall),
            flush=True,
        )  # fmt: skip
        for n, u in per_unit.items():
            if u["why"]:
                print("  note %s: %s" % (n, json.dumps(u["why"])[:300]))
        code = EXIT_OK
        for d in self.divergences[:10]:
            print("ENGINE-NOTE: " + d.replace("\n", " | ")[:700], flush=True)
        if self.harness_errors:
            for e in self.harness_errors[:20]:
                print("HARNESS-ERROR: " + e.replace("\n", " | ")[:900], flush=True)
            code = EXIT_HARNESS
        if self.violations:
            seen = set()
            for unit, v, path in self.violations:
                if (unit, v["label"]) in seen:
                    continue
                seen.add((unit, v["label"]))
                print("  violated: unit=%s assertion=%s inputs=%s" % (unit, v["label"], json.dumps(v["inputs"])[:300]), flush=True)
                print("VIOLATION property=%s replay=%s" % (self.prop, path), flush=True)
            code = EXIT_VIOLATION
        return code


def cmd_replay(path):
    from . import explore, known, worker

    with open(path) as f:
        rec = json.load(f)
    worker.init_native()
    fn, params = _unit(rec["property"], rec["unit"], rec.get("tier", "quick"))
    regs = known.regions_for_unit(known.for_property(rec["property"]), rec["unit"])
    r = explore.run_native(fn, params, rec["inputs"], {}, rec.get("tier", "quick"))
    print("replay %s unit=%s inputs=%s" % (rec["property"], rec["unit"], json.dumps(rec["inputs"])))
    for l, d in r["failed"]:
        print("  FAILED %s %s" % (l, d[-800:]))
    if rec["label"] in [l for l, _ in r["failed"]]:
        print("reproduces: assertion %r fails on the real code" % rec["label"])
        return 1
    print("does not reproduce")
    return 0


def main(argv=None):
    ap = argparse.ArgumentParser(prog="check")
    sub = ap.add_subparsers(dest="cmd")
    c = sub.add_parser("check")
    c.add_argument("prop")
    c.add_argument("--tier", default=os.environ.get("VERIF_TIER", "quick"), choices=["quick", "thorough"])
    c.add_argument("--only", action="append")
    c.add_argument("--budget", type=float)
    c.add_argument("-v", "--verbose", action="store_true")
    r = sub.add_parser("replay")
    r.add_argument("path")
    sub.add_parser("selftest")
    args = ap.parse_args(argv)
    if args.cmd == "check":
        seed = int(os.environ.get("VERIF_SEED", "0") or 0)
        return Runner(args.prop.upper(), args.tier, seed, args.only, args.verbose, args.budget).run()
    if args.cmd == "replay":
        return cmd_replay(args.path)
    if args.cmd == "selftest":
        from . import selftest

        return selftest.main()
    ap.print_help()
    return 2


if __name__ == "__main__":
    sys.exit(main())
