"""Environment models: C-implemented library code cannot see the proxies, so the module
globals of the module under test are rebound to these models (no edit of /repo).
Every model behaves natively when nothing symbolic reaches it."""
import base64 as _b64
import builtins
import io as _io
import math as _math
import struct as _struct

import z3

from . import sym
from .sym import B, SymBool, SymBytes, SymInt, Unsupported, W, bv, mk, mkb, term8


def _symbolic(*vals):
    return any(getattr(v, "_vf_sym", False) for v in vals)


class SymBytesIO:
    """list-backed model of io.BytesIO (read/write/seek/tell/getvalue, short reads at EOF)"""

    def __init__(self, initial=b""):
        self.buf = list(sym.to_bytes_value(initial).items)
        self.pos = 0
        self.closed = False

    def __enter__(self):
        return self

    def __exit__(self, *a):
        self.closed = True
        return False

    def close(self):
        self.closed = True

    def write(self, b):
        b = sym.to_bytes_value(b)
        if self.pos > len(self.buf):
            self.buf += [0] * (self.pos - len(self.buf))
        self.buf[self.pos : self.pos + len(b)] = b.items
        self.pos += len(b)
        return len(b)

    def getvalue(self):
        if all(isinstance(x, builtins.int) and not getattr(x, "_vf_sym", False) for x in self.buf):
            return builtins.bytes(self.buf)  # nothing symbolic was written: exactly what io.BytesIO returns
        return SymBytes(self.buf)

    def getbuffer(self):
        return SymBytes(self.buf)

    def seek(self, p, whence=0):
        if isinstance(p, (SymInt, SymBool)):
            p = p.__index__()
        if whence == 1:
            p += self.pos
        elif whence == 2:
            p += len(self.buf)
        if p < 0:
            raise ValueError("negative seek value %d" % p)
        self.pos = p
        return p

    def tell(self):
        return self.pos

    def read(self, n=-1):
        rem = max(0, len(self.buf) - self.pos)
        if n is None:
            n = rem
        elif isinstance(n, (SymInt, SymBool)):
            if n < 0 or n >= rem:
                n = rem
            else:
                n = n.__index__()
        elif n < 0 or n > rem:
            n = rem
        out = SymBytes(self.buf[self.pos : self.pos + n])
        self.pos += len(out)
        return out

    def readable(self):
        return True

    def writable(self):
        return True


class _BytesIOMeta(type):
    def __instancecheck__(cls, inst):
        return isinstance(inst, (SymBytesIO, _io.BytesIO))


class BytesIOShim(metaclass=_BytesIOMeta):
    def __new__(cls, initial=b""):
        return SymBytesIO(initial)


# ---------------------------------------------------------------------------


class _IntMeta(type):
    def __instancecheck__(cls, inst):
        return isinstance(inst, (builtins.int, SymInt, SymBool))

    def __subclasscheck__(cls, sub):
        return issubclass(sub, builtins.int)

    def __eq__(cls, other):
        return other is cls or other is builtins.int

    def __hash__(cls):
        return hash(builtins.int)


class IntShim(metaclass=_IntMeta):
    """stands for the builtin `int` inside the module under test"""

    def __new__(cls, x=0, *a):
        if isinstance(x, SymInt):
            return x
        if isinstance(x, SymBool):
            return mk(bv(x))
        if getattr(x, "_vf_decstr", False):
            return x.value
        if getattr(x, "_vf_float", False):
            return x.__int__()
        if getattr(x, "_vf_z", False):
            return x
        if getattr(x, "_vf_sym", False):
            raise Unsupported("int(%s)" % type(x).__name__)
        return builtins.int(x, *a)

    @staticmethod
    def from_bytes(b, byteorder="big", *, signed=False):
        if not isinstance(b, SymBytes):
            return builtins.int.from_bytes(b, byteorder, signed=signed)
        n = len(b)
        if n == 0:
            return 0
        if 8 * n >= W:
            raise Unsupported("int.from_bytes wider than BV")
        order = range(n) if byteorder == "little" else range(n - 1, -1, -1)
        t = z3.Concat([b.term(i) for i in reversed(list(order))]) if n > 1 else b.term(0)
        t = z3.SignExt(W - 8 * n, t) if signed else z3.ZeroExt(W - 8 * n, t)
        return mk(t)


class _FloatMeta(type):
    def __instancecheck__(cls, inst):
        return isinstance(inst, builtins.float)

    def __eq__(cls, other):
        return other is cls or other is builtins.float

    def __hash__(cls):
        return hash(builtins.float)


class FloatShim(metaclass=_FloatMeta):
    def __new__(cls, x=0.0):
        if getattr(x, "_vf_float", False):
            return x
        if isinstance(x, (SymInt, SymBool)):
            from .symfloat import SymFloat

            return SymFloat.from_int(x)
        if getattr(x, "_vf_decstr", False) and isinstance(x.value, (SymInt, int)):
            # float("<canonical decimal text of n>") is the correctly rounded double of n
            from .symfloat import SymFloat

            return SymFloat.from_int(x.value)
        if getattr(x, "_vf_sym", False):
            c = getattr(x, "concrete", lambda: None)()
            if c is None:
                raise Unsupported("float(%s)" % type(x).__name__)
            x = c
        return builtins.float(x)


class _StrMeta(type):
    def __instancecheck__(cls, inst):
        return isinstance(inst, builtins.str)

    def __eq__(cls, other):
        return other is cls or other is builtins.str

    def __hash__(cls):
        return hash(builtins.str)

    def __getattr__(cls, name):
        # unbound method call, str.rfind(s, "."): the proxy's own method when s is a proxy, the real one otherwise
        real = getattr(builtins.str, name)

        def call(self, *a, **k):
            if getattr(self, "_vf_sym", False):
                return getattr(self, name)(*a, **k)
            return real(self, *a, **k)

        return call


class StrShim(metaclass=_StrMeta):
    def __str__(self):
        # str.__str__(x) is used to turn instances of str subclasses into plain strings: a proxy stays what it is
        if getattr(self, "_vf_sym", False):
            return self
        return builtins.str.__str__(self)

    def __new__(cls, x="", *a):
        if isinstance(x, SymBytes) and a:
            return x.decode(*a)
        if isinstance(x, (SymInt, SymBool)):
            return x.__str__()
        if getattr(x, "_vf_float", False):
            raise Unsupported("str(float) is C code (shortest repr)")
        return builtins.str(x, *a)


class _BytesMeta(type):
    def __instancecheck__(cls, inst):
        return isinstance(inst, builtins.bytes)

    def __eq__(cls, other):
        return other is cls or other is builtins.bytes

    def __hash__(cls):
        return hash(builtins.bytes)


class BytesShim(metaclass=_BytesMeta):
    def __new__(cls, x=b"", *a):
        if isinstance(x, SymBytes):
            return x
        if isinstance(x, bytearray):
            return builtins.bytes(x)
        if getattr(x, "_vf_str", False):
            return x.encode(*a)
        return builtins.bytes(x, *a)


# ---------------------------------------------------------------------------


class StructObj:
    """stands for a precompiled struct.Struct(fmt) object"""

    def __init__(self, fmt):
        self.format = fmt
        self.size = _struct.calcsize(fmt)

    def pack(self, *vs):
        return StructShim().pack(self.format, *vs)

    def unpack(self, b):
        return StructShim().unpack(self.format, b)

    def unpack_from(self, b, offset=0):
        if isinstance(b, SymBytes) and not b.is_concrete():
            return StructShim().unpack(self.format, b[offset : offset + self.size])
        return _struct.unpack_from(self.format, b, offset)

    def iter_unpack(self, b):
        if isinstance(b, SymBytes) and not b.is_concrete():
            if len(b) % self.size:
                raise _struct.error("iterative unpacking requires a buffer of a multiple of %d bytes" % self.size)
            return iter([StructShim().unpack(self.format, b[i : i + self.size]) for i in range(0, len(b), self.size)])
        return _struct.iter_unpack(self.format, b)


def rewrap_struct_objects(mod):
    """struct.Struct objects created at import time (before the model was in place) are C objects that would realise a proxy silently:
    replace them, also inside module-level dicts / lists, by the model"""
    n = 0

    def conv(v):
        nonlocal n
        if isinstance(v, _struct.Struct):
            n += 1
            return StructObj(v.format)
        return v

    for name, val in list(vars(mod).items()):
        if isinstance(val, _struct.Struct):
            setattr(mod, name, conv(val))
        elif type(val) is dict:
            for k in list(val):
                val[k] = conv(val[k])
        elif type(val) is list:
            val[:] = [conv(x) for x in val]
        elif type(val) is tuple and any(isinstance(x, _struct.Struct) for x in val):
            setattr(mod, name, tuple(conv(x) for x in val))
    return n


class StructShim:
    error = _struct.error

    def Struct(self, fmt):
        return StructObj(fmt)

    def calcsize(self, fmt):
        return _struct.calcsize(fmt)
    _ints = {"<I": (4, False), "<i": (4, True), "<Q": (8, False), "<q": (8, True)}

    def __getattr__(self, name):
        return getattr(_struct, name)

    def pack(self, fmt, *vs):
        if len(vs) != 1 or not _symbolic(*vs):
            return _struct.pack(fmt, *vs)
        v = vs[0]
        if fmt in self._ints:
            if getattr(v, "_vf_float", False):
                raise _struct.error("required argument is not an integer")
            n, signed = self._ints[fmt]
            lo, hi = (-(1 << (8 * n - 1)), (1 << (8 * n - 1))) if signed else (0, 1 << (8 * n))
            v = SymInt(bv(v), sym.iv(v))
            if not (v >= lo and v < hi):
                raise _struct.error("argument out of range")
            return SymBytes([z3.Extract(8 * i + 7, 8 * i, v.t) for i in range(n)])
        if fmt in ("<d", "<f"):
            from .symfloat import SymFloat

            f = SymFloat.coerce(v)
            return f.pack64() if fmt == "<d" else f.pack32()
        raise Unsupported("struct.pack(%r) on a symbolic value" % fmt)

    def unpack(self, fmt, b):
        if not isinstance(b, SymBytes) or b.is_concrete():
            return _struct.unpack(fmt, builtins.bytes(b) if not isinstance(b, SymBytes) else b.concrete())
        if fmt in self._ints:
            n, signed = self._ints[fmt]
            if len(b) != n:
                raise _struct.error("unpack requires a buffer of %d bytes" % n)
            t = z3.Concat([b.term(i) for i in reversed(range(n))])
            t = z3.SignExt(W - 8 * n, t) if signed else z3.ZeroExt(W - 8 * n, t)
            return (mk(t),)
        if fmt in ("<d", "<f"):
            from .symfloat import SymFloat

            n = 8 if fmt == "<d" else 4
            if len(b) != n:
                raise _struct.error("unpack requires a buffer of %d bytes" % n)
            return (SymFloat.unpack64(b) if fmt == "<d" else SymFloat.unpack32(b),)
        raise Unsupported("struct.unpack(%r) on symbolic bytes" % fmt)


class MathShim:
    def __getattr__(self, name):
        return getattr(_math, name)

    def isnan(self, x):
        if getattr(x, "_vf_float", False):
            return x.isnan()
        if isinstance(x, (SymInt, SymBool)):
            return False
        return _math.isnan(x)

    def isinf(self, x):
        if getattr(x, "_vf_float", False):
            return x.isinf()
        if isinstance(x, (SymInt, SymBool)):
            return False
        return _math.isinf(x)

    def ceil(self, x):
        if getattr(x, "_vf_sym", False):
            return x.__ceil__()
        return _math.ceil(x)

    def floor(self, x):
        if getattr(x, "_vf_sym", False):
            return x.__floor__()
        return _math.floor(x)


# ---------------------------------------------------------------------------
# base64 (standard alphabet, padding) -- exact model

_B64 = b"ABCDEFGHIJKLMNOPQRSTUVWXYZabcdefghijklmnopqrstuvwxyz0123456789+/"


def _b64_char(six):
    """8-bit term of the base64 character for a 6-bit term"""
    six = z3.ZeroExt(2, six)
    return z3.If(
        z3.ULT(six, 26),
        six + 65,
        z3.If(z3.ULT(six, 52), six + 71, z3.If(z3.ULT(six, 62), six - 4, z3.If(six == 62, z3.BitVecVal(43, 8), z3.BitVecVal(47, 8)))),
    )


def b64encode(b, altchars=None):
    if not isinstance(b, SymBytes) or b.is_concrete() or altchars is not None:
        return _b64.b64encode(builtins.bytes(b) if not isinstance(b, SymBytes) else b.concrete(), altchars)
    out = []
    n = len(b)
    for i in range(0, n, 3):
        chunk = [b.term(j) for j in range(i, min(i + 3, n))]
        k = len(chunk)
        while len(chunk) < 3:
            chunk.append(z3.BitVecVal(0, 8))
        t = z3.Concat(chunk)  # 24 bits
        six = [z3.Extract(23 - 6 * j, 18 - 6 * j, t) for j in range(4)]
        cs = [_b64_char(s) for s in six]
        if k == 1:
            cs[2] = cs[3] = 61
        elif k == 2:
            cs[3] = 61
        out += cs
    return SymBytes(out)


def _b64_val(c):
    """(6-bit term, valid Bool) for an 8-bit char term"""
    v = z3.If(
        z3.And(z3.UGE(c, 65), z3.ULE(c, 90)),
        c - 65,
        z3.If(
            z3.And(z3.UGE(c, 97), z3.ULE(c, 122)),
            c - 71,
            z3.If(z3.And(z3.UGE(c, 48), z3.ULE(c, 57)), c + 4, z3.If(c == 43, z3.BitVecVal(62, 8), z3.BitVecVal(63, 8))),
        ),
    )
    valid = z3.Or(
        z3.And(z3.UGE(c, 65), z3.ULE(c, 90)), z3.And(z3.UGE(c, 97), z3.ULE(c, 122)), z3.And(z3.UGE(c, 48), z3.ULE(c, 57)), c == 43, c == 47
    )
    return z3.Extract(5, 0, v), valid


def b64decode(s, altchars=None, validate=False):
    """model of base64.b64decode for well-formed symbolic input produced by the model of
    b64encode (length multiple of 4, '=' only as concrete padding); anything else -> native
    or Unsupported"""
    from .symstr import SymStr

    if isinstance(s, SymStr):
        if s.is_concrete():
            return _b64.b64decode(s.concrete(), altchars, validate)
        items = list(s.items)
        for x in items:
            if not isinstance(x, int) and not B(z3.ULT(x, 128)):
                raise ValueError("string argument should contain only ASCII characters")
        items = [x if isinstance(x, int) else z3.Extract(7, 0, x) for x in items]
    elif isinstance(s, SymBytes):
        if s.is_concrete():
            return _b64.b64decode(s.concrete(), altchars, validate)
        items = list(s.items)
    else:
        return _b64.b64decode(s, altchars, validate)
    if altchars is not None or len(items) % 4:
        raise Unsupported("b64decode shape")
    out = []
    for i in range(0, len(items), 4):
        q = items[i : i + 4]
        pad = 0
        if q[3] == 61:
            pad = 2 if q[2] == 61 else 1
        vals = []
        for c in q[: 4 - pad]:
            v, ok = _b64_val(term8(c))
            if not B(ok):
                raise Unsupported("b64decode of non-alphabet characters (discarded by the C decoder)")
            vals.append(v)
        while len(vals) < 4:
            vals.append(z3.BitVecVal(0, 6))
        t = z3.Concat(vals)
        bs = [z3.Extract(23, 16, t), z3.Extract(15, 8, t), z3.Extract(7, 0, t)]
        if pad and i + 4 != len(items):
            raise Unsupported("b64decode inner padding")
        out += bs[: 3 - pad]
    return SymBytes(out)


_SINGLETONS = {}


def _single(name, factory):
    if name not in _SINGLETONS:
        _SINGLETONS[name] = factory()
    return _SINGLETONS[name]


def rebind(g, kind, first):
    """bind the models in the namespace `g` of a module that is being imported (called from the injected __vf_rebind__ statements)"""
    import base64 as _b64
    import io as _io
    import json as _json
    import keyword as _kw
    import os as _os
    import re as _re

    if kind == "core":
        if first:
            g["int"], g["float"], g["str"], g["bytes"] = IntShim, FloatShim, StrShim, BytesShim
        from .symjson import JsonShim

        table = {"BytesIO": (_io.BytesIO, lambda: BytesIOShim), "struct": (_struct, lambda: _single("struct", StructShim)), "json": (_json, lambda: _single("json", JsonShim)),
                 "math": (_math, lambda: _single("math", MathShim)), "b64encode": (_b64.b64encode, lambda: b64encode), "b64decode": (_b64.b64decode, lambda: b64decode)}  # fmt: skip
    else:
        from . import symre

        if first:
            g["str"] = StrShim
        table = {"re": (_re, lambda: _single("re", symre.ReShim)), "keyword": (_kw, lambda: _single("keyword", symre.KwShim)), "os": (_os, lambda: _single("os", symre.OsShim))}
    for name, (real, make) in table.items():
        if g.get(name) is real:
            g[name] = make()


def install_core(mod):
    """rebind the C-level names of module `mod` (betterproto/__init__) to the models"""
    mod.BytesIO = BytesIOShim
    mod.struct = StructShim()
    mod.int = IntShim
    mod.float = FloatShim
    mod.str = StrShim
    mod.bytes = BytesShim
    mod.math = MathShim()
    mod.b64encode = b64encode
    mod.b64decode = b64decode
    from .symjson import JsonShim

    mod.json = JsonShim()
    rewrap_struct_objects(mod)
    return [
        "betterproto.json -> dumps checks serialisability like json and returns an opaque text carrying the value tree it parses back to (keys stringified, one NaN); loads returns that tree",
        "betterproto.BytesIO -> list-backed stream model",
        "betterproto.struct -> pack/unpack model for <I <i <Q <q <d <f",
        "betterproto.int/float/str/bytes -> constructor shims (identity on proxies, int.from_bytes, str(bytes,'utf-8'))",
        "betterproto.math -> isnan/isinf/ceil/floor aware of proxies",
        "betterproto.b64encode/b64decode -> exact table model",
    ]
