"""Harness environment (symbolic and native twins) and the stateless-DFS path explorer."""
import builtins
import hashlib
import json
import struct as _struct
import sys
import time
import traceback

import z3

from . import sym
from .sym import B, Ctx, EngineLimit, PathAbort, SymBool, SymBytes, SymInt, W, bv, mk, mkb


class HarnessBug(Exception):
    """the harness itself is wrong (duplicate input names, ...)"""


class Cut(BaseException):
    """path deliberately left outside the claim (recorded)"""


# ---------------------------------------------------------------------------
# known-finding regions (see vf.known)

_REGION_FUNCS = {}


def _is_neg_zero(v):
    from .symfloat import SymFloat

    return mkb(SymFloat.coerce(v).bits == (1 << 63))


_REGION_NS = {"And": sym.sym_and, "Or": sym.sym_or, "Not": sym.sym_not, "is_neg_zero": _is_neg_zero}


def region_func(f):
    _REGION_FUNCS[f.__name__] = f
    return f


# ---------------------------------------------------------------------------


def concretize(v, model=None):
    """JSON-able concrete image of an observed value (under `model` if symbolic)"""
    from .symfloat import SymFloat
    from .symstr import SymDecStr, SymStr

    def ev(t):
        return model.eval(t, model_completion=True)

    if v is None or isinstance(v, (builtins.bool,)):
        return v
    if isinstance(v, SymBool):
        return z3.is_true(ev(v.t))
    if isinstance(v, SymInt):
        return ev(v.t).as_signed_long()
    if isinstance(v, sym.SymZ):
        return ev(v.t).as_long()
    if isinstance(v, SymFloat):
        bits = ev(v.bits).as_long() if model is not None else v.bits.as_long()
        return {"f64": _canon_nan(bits)}
    if isinstance(v, builtins.float):
        return {"f64": _canon_nan(_struct.unpack("<Q", _struct.pack("<d", v))[0])}
    if isinstance(v, SymBytes):
        return {"b": builtins.bytes(x if isinstance(x, int) else ev(x).as_long() for x in v.items).hex()}
    if isinstance(v, (builtins.bytes, bytearray)):
        return {"b": builtins.bytes(v).hex()}
    if isinstance(v, SymDecStr):
        return builtins.str(concretize(v.value, model))
    if getattr(v, "pieces", None) is not None and isinstance(v, builtins.str):
        return v.concrete_with(lambda x: concretize(x, model))
    if isinstance(v, SymStr):
        return "".join(chr(x if isinstance(x, int) else ev(x).as_long()) for x in v.items)
    if isinstance(v, builtins.str):
        return builtins.str(v)
    if isinstance(v, builtins.int):
        return builtins.int(v)
    if isinstance(v, (list, tuple)):
        return [concretize(x, model) for x in v]
    if isinstance(v, dict):
        items = [[concretize(k, model), concretize(x, model)] for k, x in v.items()]
        return {"map": sorted(items, key=lambda kv: json.dumps(kv[0], sort_keys=True))}
    if hasattr(v, "isoformat"):
        return {"t": v.isoformat()}
    if hasattr(v, "total_seconds"):
        return {"td": [v.days, v.seconds, v.microseconds]}
    raise HarnessBug("cannot observe a %s" % type(v).__name__)


def _canon_nan(bits):
    # the sign / payload of a NaN are observed exactly (pack/unpack are bit-exact in the model)
    return bits


class Violation:
    def __init__(self, label, detail=""):
        self.label, self.detail = label, detail


def exception_label(e):
    """raised:<Type> when the exception was raised by code of the repository (or the stdlib
    on its behalf); harness-exception:<Type> when the innermost frame is the machinery's own"""
    import os

    tb = e.__traceback__
    last = None
    while tb is not None:
        last = tb.tb_frame.f_code.co_filename
        tb = tb.tb_next
    root = os.path.dirname(os.path.abspath(__file__))
    if last and last.startswith(root) and not isinstance(e, AssertionError):
        return "harness-exception:" + type(e).__name__
    return "raised:" + type(e).__name__


class Env:
    """what a harness sees.  mode == 'sym': inputs are proxies; mode == 'native': inputs come
    from a concrete assignment and the *untouched* modules are executed."""

    def __init__(self, mode, ctx=None, inputs=None, regions=None, tier="quick", params=None):
        self.mode = mode
        self.ctx = ctx
        self.given = inputs or {}
        self.vars = {}  # name -> value (proxy or concrete)
        self.kinds = {}  # name -> kind description
        self.obs = []
        self.failed = []  # native: labels of failed checks ; sym: Violation records
        self.excused = []  # (label, region id) decided inside a known-finding region
        self.regions = regions or {}  # label -> [(id, predicate name or expression)]
        self.tier = tier
        self.params = params or {}
        self.checks = 0
        self.reached = set()
        self.aux = {}  # harness-computed values the known-finding regions may refer to
        self.overwide = []  # (label, region id): paths on which the region also contains inputs satisfying the assertion

    sym = property(lambda self: self.mode == "sym")

    # -- inputs -----------------------------------------------------------
    def _new(self, name, kind):
        if name in self.vars:
            raise HarnessBug("duplicate input %r" % name)
        self.kinds[name] = kind

    def _given(self, name):
        if name not in self.given:
            raise HarnessBug("native twin: no value for input %r" % name)
        return self.given[name]

    def int(self, name, lo, hi):
        """integer in [lo, hi] (inclusive)"""
        self._new(name, ["int", lo, hi])
        if self.sym:
            t = z3.BitVec(name, W)
            self.ctx.add(z3.And(t >= lo, t <= hi))
            v = SymInt(t, (lo, hi))
        else:
            v = builtins.int(self._given(name))
            assert lo <= v <= hi
        self.vars[name] = v
        return v

    def zint(self, name, lo, hi):
        """integer in [lo, hi] on the mathematical-integer (LIA) back end: for pure arithmetic kernels"""
        self._new(name, ["zint", lo, hi])
        if self.sym:
            t = z3.Int(name)
            self.ctx.add(z3.And(t >= lo, t <= hi))
            v = sym.SymZ(t)
        else:
            v = builtins.int(self._given(name))
            assert lo <= v <= hi
        self.vars[name] = v
        return v

    def bool(self, name):
        self._new(name, ["bool"])
        v = SymBool(z3.Bool(name)) if self.sym else builtins.bool(self._given(name))
        self.vars[name] = v
        return v

    def bytes(self, name, n):
        self._new(name, ["bytes", n])
        if self.sym:
            v = SymBytes([z3.BitVec(f"{name}[{i}]", 8) for i in range(n)])
        else:
            v = builtins.bytes.fromhex(self._given(name)["b"])
            assert len(v) == n
        self.vars[name] = v
        return v

    def str(self, name, n, lo=0, hi=0x10FFFF, no_surrogates=True):
        from .symstr import CW, SymStr

        self._new(name, ["str", n, lo, hi])
        if self.sym:
            cs = [z3.BitVec(f"{name}[{i}]", CW) for i in range(n)]
            for c in cs:
                self.ctx.add(z3.And(z3.UGE(c, lo), z3.ULE(c, hi)))
                if no_surrogates and lo <= 0xDFFF and hi >= 0xD800:
                    self.ctx.add(z3.Not(z3.And(z3.UGE(c, 0xD800), z3.ULE(c, 0xDFFF))))
            v = SymStr(cs)
        else:
            v = self._given(name)
            assert len(v) == n
        self.vars[name] = v
        return v

    def f64(self, name):
        from .symfloat import SymFloat

        self._new(name, ["f64"])
        if self.sym:
            v = SymFloat(z3.BitVec(name, 64))
        else:
            v = _struct.unpack("<d", _struct.pack("<Q", self._given(name)["f64"]))[0]
        self.vars[name] = v
        return v

    def choose(self, name, n):
        """environment choice 0..n-1 (operation selector, cut point, schedule decision, ...)"""
        self._new(name, ["choose", n])
        if n <= 0:
            raise HarnessBug("choose(0)")
        if not self.sym:
            v = builtins.int(self._given(name))
            self.vars[name] = v
            return v
        if n == 1:
            self.vars[name] = 0
            return 0
        t = z3.BitVec(name, W)
        self.ctx.add(z3.And(t >= 0, t < n))
        self.vars[name] = SymInt(t, (0, n - 1))
        for k in range(n - 1):
            if self.ctx.branch(t == k):
                return k
        self.ctx.add(t == n - 1)
        return n - 1

    # -- assumptions / assertions ---------------------------------------------
    def assume(self, cond):
        if self.sym:
            self.ctx.assume(cond)
        elif not cond:
            raise PathAbort("assumption false in native twin")

    def cut(self, reason):
        raise Cut(reason)

    def proof_device(self, label, cond, soft=False):
        """a condition the *argument* needs (a representation invariant of an inductive step), not one the property states: where it
        can fail, the argument does not apply to this path and the path is left outside the claim (recorded), never reported as a violation.
        soft: return False instead of leaving the path, so that the harness can go on observing (only observable clauses are asserted)"""
        if not isinstance(cond, SymBool):
            cond = builtins.bool(cond)
        if self.sym:
            holds = cond is True or (cond is not False and self.ctx.must(cond) is None)
        else:
            holds = cond
        if holds:
            return True
        if soft:
            return False
        raise Cut("proof device does not hold: " + label)

    def _region_terms(self, label):
        out = []
        for rid, pred in self.regions.get(label, ()):
            f = _REGION_FUNCS.get(pred)
            try:
                r = f(self) if f else eval(pred, dict(_REGION_NS), dict(self.vars))
            except KeyError:
                continue  # the region talks about inputs this path does not have
            except NameError:
                continue
            out.append((rid, r))
        return out

    def check(self, label, cond, detail=""):
        """property assertion: must hold for every value of the current path"""
        self.checks += 1
        self.reached.add(label)
        if not isinstance(cond, SymBool):
            cond = builtins.bool(cond)
        regs = self._region_terms(label)
        if self.sym:
            full = sym.sym_or(cond, *[r for _, r in regs])
            m = self.ctx.must(full)
            if m is not None:
                v = Violation(label, detail)
                v.model = m
                self.failed.append(v)
                # continue the path under the assumption that the assertion held
                self.ctx.assume(full)
            elif regs and cond is not True:
                # was the region needed?  (for KNOWN-FINDING bookkeeping only)
                if self.ctx.must(cond) is not None:
                    for rid, r in regs:
                        self.excused.append((label, rid))
                if self.tier == "thorough":
                    # region tightness: is there an input inside the region on which the assertion holds? (reported, not a verdict)
                    for rid, r in regs:
                        both = sym.sym_and(r, cond)
                        if both is True or (isinstance(both, SymBool) and self.ctx.check(both.t) == z3.sat):
                            self.overwide.append((label, rid))
        else:
            if not cond:
                for rid, r in regs:
                    if r:
                        self.excused.append((label, rid))
                        return
                self.failed.append(Violation(label, detail))

    def observe(self, label, value):
        self.obs.append((label, value))

    def note(self, text):
        pass


class WarmEnv(Env):
    """a concrete 'first use' of the harness with synthesised non-default inputs (every choice takes its last option, every value is
    non-zero and distinct).  Run before each path, after the process state was reset, when the harness module sets WARMUP: state that
    the package leaks from one use to the next (stale caches, shared defaults, reused scratch objects) then meets every value of the path
    that follows.  Its own assertions are not evaluated."""

    def __init__(self, tier, params):
        Env.__init__(self, "native", inputs={}, tier=tier, params=params)
        self.k = 0

    def _given(self, name):
        kind = self.kinds[name]
        self.k += 1
        k = self.k
        if kind[0] in ("int", "zint"):
            lo, hi = kind[1], kind[2]
            return max(lo, min(hi, 2 + k))
        if kind[0] == "bool":
            return True
        if kind[0] == "bytes":
            return {"b": ("%02x" % (0xA0 + k % 64)) * kind[1]}
        if kind[0] == "str":
            n, lo, hi = kind[1], kind[2], kind[3]
            return chr(max(lo, min(hi, 0x61 + k % 26))) * n
        if kind[0] == "f64":
            return {"f64": _struct.unpack("<Q", _struct.pack("<d", 1.5 + k))[0]}
        if kind[0] == "choose":
            return kind[1] - 1
        raise HarnessBug("warm-up: input kind %r" % (kind,))

    def check(self, label, cond, detail=""):
        pass


def wants_warmup(fn):
    return bool(getattr(sys.modules.get(fn.__module__), "WARMUP", False)) or bool(getattr(fn, "WARMUP", False))


def warm_up(fn, params, tier):
    try:
        fn(WarmEnv(tier, params))
    except (KeyboardInterrupt, SystemExit):
        raise
    except BaseException:
        pass


# ---------------------------------------------------------------------------
# functions-encoded collector (sys.monitoring)

_ENCODED = {}
_TOOL = 4


def start_coverage(root):
    mon = sys.monitoring
    try:
        mon.use_tool_id(_TOOL, "vf-encoded")
    except ValueError:
        return

    def on_start(code, offset):
        fn = code.co_filename
        if fn.startswith(root):
            _ENCODED[(fn[len(root) :].lstrip("/"), code.co_qualname, code.co_firstlineno)] = 1
        return mon.DISABLE

    mon.register_callback(_TOOL, mon.events.PY_START, on_start)
    mon.set_events(_TOOL, mon.events.PY_START)


def encoded_functions():
    return sorted(_ENCODED)


# ---------------------------------------------------------------------------


def model_inputs(env, model):
    out = {}
    for name, v in env.vars.items():
        out[name] = concretize(v, model)
    return out


def run_path(fn, params, prefix, regions, tier, deadline, qtimeout_ms):
    """one symbolic execution of the harness along `prefix`; returns a record"""
    from . import procstate

    procstate.reset()
    if wants_warmup(fn):
        warm_up(fn, params, tier)
    ctx = Ctx(prefix, qtimeout_ms=qtimeout_ms)
    ctx.deadline = deadline
    env = Env("sym", ctx=ctx, regions=regions, tier=tier, params=params)
    sym.CTX = ctx
    rec = {"status": "ok", "violations": [], "witness": None}
    try:
        try:
            fn(env)
        except (PathAbort, EngineLimit, Cut):
            raise
        except RecursionError:
            raise EngineLimit("recursion limit inside the harness")
        except Exception as e:
            # an exception escaping the harness is a property failure of kind raised:<type>
            v = Violation(exception_label(e), traceback.format_exc(limit=-6))
            v.model = ctx.get_model()
            env.failed.append(v)
        ctx.discharge_obligations()
        m = ctx.get_model()
        rec["witness"] = {"inputs": model_inputs(env, m), "obs": [[l, concretize(v, m)] for l, v in env.obs]}
    except PathAbort:
        rec["status"] = "infeasible"
    except Cut as c:
        rec["status"] = "cut"
        rec["why"] = str(c)
    except EngineLimit as e:
        rec["status"] = "inconclusive"
        rec["why"] = "%s: %s" % (type(e).__name__, e)
        # the path could not be decided symbolically: still take a witness of the path condition reached so far, so
        # that the native twin evaluates every assertion concretely at one input of this path (witness-level evidence)
        try:
            ctx.s.set("timeout", 3000)
            m = ctx.get_model()
            rec["witness"] = {"inputs": model_inputs(env, m), "obs": None, "partial": True}
        except BaseException:
            pass
    finally:
        sym.CTX = None
    for v in env.failed:
        try:
            rec["violations"].append({"label": v.label, "detail": v.detail, "inputs": model_inputs(env, v.model)})
        except Exception as e:  # pragma: no cover
            rec["violations"].append({"label": v.label, "detail": v.detail + " (model extraction failed: %r)" % e, "inputs": None})
    rec["excused"] = sorted(set(env.excused))
    rec["overwide"] = sorted(set(env.overwide))
    rec["reached"] = sorted(env.reached)
    rec["checks"] = env.checks
    rec["queries"] = ctx.queries
    rec["solver_s"] = ctx.solver_s
    rec["dec"] = ctx.dec
    rec["kinds"] = env.kinds
    return rec


def explore(fn, params, prefix=(), regions=None, tier="quick", max_paths=10**9, budget_s=10**9, qtimeout_ms=20000, on_path=None):
    """stateless DFS below `prefix`.  Returns aggregate + unexplored prefixes (leftover)."""
    t0 = time.time()
    deadline = t0 + budget_s
    stack = [list(prefix)]
    agg = {
        "paths": 0, "ok": 0, "infeasible": 0, "cut": 0, "inconclusive": 0, "queries": 0, "solver_s": 0.0, "checks": 0,
        "violations": [], "witnesses": [], "why": {}, "excused": {}, "reached": {}, "leftover": [], "kinds": {}, "overwide": {},
    }  # fmt: skip
    while stack:
        if agg["paths"] >= max_paths or time.time() > deadline:
            agg["leftover"] = stack
            break
        # shallowest pending prefix first (ties: the most recent): the alternatives of the early decisions - the environment choices that
        # fix the structure of the input - are taken before the alternatives of deep, value-dependent forks, so that a unit that hits
        # its path cap has at least visited every structural combination it could
        i = min(range(len(stack) - 1, -1, -1), key=lambda j: len(stack[j]))
        pre = stack.pop(i)
        rec = run_path(fn, params, pre, regions, tier, deadline, qtimeout_ms)
        agg["paths"] += 1
        agg[rec["status"]] += 1
        agg["queries"] += rec["queries"]
        agg["solver_s"] += rec["solver_s"]
        agg["checks"] += rec["checks"]
        agg["kinds"].update(rec["kinds"])
        if rec["status"] in ("inconclusive", "cut"):
            agg["why"][rec["why"]] = agg["why"].get(rec["why"], 0) + 1
        for l in rec["reached"]:
            agg["reached"][l] = agg["reached"].get(l, 0) + 1
        for e in rec["excused"]:
            k = "%s|%s" % e
            agg["excused"][k] = agg["excused"].get(k, 0) + 1
        for e in rec.get("overwide", ()):
            k = "%s|%s" % e
            agg["overwide"][k] = agg["overwide"].get(k, 0) + 1
        for v in rec["violations"]:
            v["prefix_len"] = len(rec["dec"])
            agg["violations"].append(v)
        if rec["witness"] is not None:
            agg["witnesses"].append(rec["witness"])
        dec = rec["dec"]
        for i in range(len(pre), len(dec)):
            taken, alt, h = dec[i]
            if alt:
                stack.append([(d[0], d[2]) for d in dec[:i]] + [(not taken, h)])
        if on_path:
            on_path(rec)
    agg["wall_s"] = time.time() - t0
    return agg


def run_native(fn, params, inputs, regions=None, tier="quick"):
    """native twin: concrete inputs, untouched modules.  Returns (failed labels, obs, excused)"""
    from . import procstate

    procstate.reset()
    if wants_warmup(fn):
        warm_up(fn, params, tier)
    env = Env("native", inputs=inputs, regions=regions, tier=tier, params=params)
    assert sym.CTX is None
    try:
        fn(env)
    except PathAbort:
        return {"failed": [], "obs": None, "excused": [], "aborted": True}
    except Cut:
        return {"failed": [], "obs": None, "excused": [], "aborted": True}
    except Exception as e:
        env.failed.append(Violation(exception_label(e), traceback.format_exc(limit=-6)))
    return {
        "failed": [[v.label, v.detail] for v in env.failed],
        "obs": [[l, concretize(v)] for l, v in env.obs],
        "excused": sorted(set(env.excused)),
        "aborted": False,
    }
