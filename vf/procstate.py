"""Process-level state of the package under test.

A worker process executes many thousands of paths.  Whatever the package keeps at module or class level (memo tables, lazily built
per-class metadata, functools caches) would make a path depend on the paths executed before it in the same process: the stateless
re-execution of decision prefixes would diverge, and a witness would not replay in the native twin.  Before every path - symbolic and
native alike - that state is therefore put back to what it was right after import:

* every dict / set / list / bytearray bound at module level or as a class attribute in a module of the package is restored to the
  (shallow) snapshot taken when the worker was initialised;
* every functools cache found there is cleared;
* the per-class metadata that `Message._betterproto` builds lazily is dropped from every Message subclass, so it is rebuilt in the
  order in which the path uses the classes.

Consequence for the claims: each path starts from "freshly imported package"; state that leaks from one message / class / call to
another is observed when both uses lie inside one path (the harnesses that use two messages, two classes or two fields per path)."""
import functools
import os
import sys
import types

_SNAP = None
_CACHES = []
_ROOT = None


def _package_modules(src):
    root = os.path.join(src, "betterproto")
    out = []
    for name, mod in list(sys.modules.items()):
        f = getattr(mod, "__file__", None)
        if f and f.startswith(root + os.sep):
            out.append(mod)
    return out


def _slots(mod):
    """(namespace owner, attribute name, object) of everything bound at module level or on a class defined in the module"""
    for k, v in list(vars(mod).items()):
        if k.startswith("__"):
            continue
        yield mod, k, v
        if isinstance(v, type) and getattr(v, "__module__", None) == mod.__name__:
            for ck, cv in list(vars(v).items()):
                if ck.startswith("__") or ck in ("_abc_impl",):
                    continue
                yield v, ck, cv


def snapshot(src):
    global _SNAP, _ROOT
    _ROOT = src
    _SNAP = []
    seen = set()
    for mod in _package_modules(src):
        for owner, k, v in _slots(mod):
            if id(v) in seen:
                continue
            if type(v) in (dict, set, list, bytearray) or (isinstance(v, (dict, set, list)) and type(v).__module__ in ("collections", "builtins")):
                seen.add(id(v))
                _SNAP.append((v, v.copy() if not isinstance(v, bytearray) else bytes(v)))
            elif hasattr(v, "cache_clear") and hasattr(v, "cache_info"):
                seen.add(id(v))
                _CACHES.append(v)
    return len(_SNAP), len(_CACHES)


class class_creation:
    """`with class_creation():` around the creation of message / enum classes by the harness machinery: whatever the package records at class
    creation time (a registry filled by __init_subclass__ or a metaclass) belongs to "freshly imported + these classes" and is folded into
    the snapshot, so that the per-path reset does not wipe it"""

    def __enter__(self):
        self.before = [(obj, snap, (obj.copy() if not isinstance(obj, bytearray) else bytes(obj))) for obj, snap in (_SNAP or [])]
        return self

    def __exit__(self, *exc):
        for obj, snap, before in self.before:
            if isinstance(obj, dict):
                for k, v in obj.items():
                    if k not in before or before[k] is not v:
                        snap[k] = v
            elif isinstance(obj, set):
                snap |= obj - before
            elif isinstance(obj, list):
                if len(obj) > len(before) and all(a is b for a, b in zip(obj, before)):
                    snap.extend(obj[len(before) :])
        return False


def _message_classes():
    bp = sys.modules.get("betterproto")
    base = getattr(bp, "Message", None)
    if base is None:
        return
    stack = [base]
    while stack:
        c = stack.pop()
        yield c
        stack.extend(c.__subclasses__())


def reset():
    if _SNAP is None:
        return
    for obj, snap in _SNAP:
        if isinstance(obj, dict):
            if len(obj) != len(snap) or any(k not in obj or obj[k] is not v for k, v in snap.items()):
                obj.clear()
                obj.update(snap)
        elif isinstance(obj, set):
            if len(obj) != len(snap):
                obj.clear()
                obj.update(snap)
        elif isinstance(obj, list):
            if len(obj) != len(snap) or any(a is not b for a, b in zip(obj, snap)):
                obj[:] = snap
        else:
            if len(obj) != len(snap):
                obj[:] = snap
    for c in _CACHES:
        c.cache_clear()
    for cls in _message_classes():
        if "_betterproto_meta" in cls.__dict__:
            try:
                delattr(cls, "_betterproto_meta")
            except AttributeError:
                pass
