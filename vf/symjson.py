"""Model of json.dumps / json.loads for the module under test (`betterproto.json`).

json is C code: a proxy handed to it would be realised silently.  What matters for the properties is not the text but what the text
*denotes* once parsed again.  `dumps(obj)` therefore checks serialisability exactly like json does (TypeError for anything that is not
dict/list/tuple/str/int/float/bool/None, for keys that are not str/int/float/bool/None; ValueError for non-finite floats under
allow_nan=False) and returns an opaque text object carrying the value tree the real text would parse back to:

  * mapping keys become strings: int -> canonical decimal text, bool -> "true"/"false", None -> "null"; str keys unchanged
  * tuples become lists; int subclasses (enum members) become plain ints
  * finite floats come back bit-identical (repr round-trips); NaN comes back as the one canonical NaN; +-inf come back as themselves

`loads(text)` of such an object returns a fresh copy of the tree; of a real str it is the real json.loads.
Not modelled (Unsupported): float keys, duplicate keys after coercion (the later one would win)."""
import json as _json

import z3

from . import sym
from .sym import B, SymBool, SymBytes, SymInt, Unsupported, mkb
from .symstr import SymDecStr, SymStr, SymText


class JsonText(str):
    _vf_sym = True
    _vf_jsontext = True

    def __new__(cls, tree):
        o = str.__new__(cls, "<json text>")
        o.tree = tree
        return o

    def __hash__(self):
        return 0

    def __copy__(self):
        return self

    def __deepcopy__(self, memo):
        return self

    def __getitem__(self, i):
        raise Unsupported("characters of a JSON text inspected")

    def __iter__(self):
        raise Unsupported("characters of a JSON text inspected")

    def __len__(self):
        raise Unsupported("length of a JSON text")

    def __eq__(self, o):
        raise Unsupported("JSON text compared")

    def __ne__(self, o):
        raise Unsupported("JSON text compared")

    def __format__(self, spec):
        return "<json text>"

    def __repr__(self):
        return "JsonText(...)"


def _key(k):
    if isinstance(k, SymBool):
        return "true" if B(k) else "false"
    if k is True:
        return "true"
    if k is False:
        return "false"
    if k is None:
        return "null"
    if isinstance(k, (SymStr, SymDecStr, SymText)):
        return k
    if isinstance(k, SymInt):
        return SymDecStr(k)
    if isinstance(k, float):
        raise Unsupported("float as a JSON object key")
    if isinstance(k, str):
        return k
    if isinstance(k, int):
        return str(int(k))
    raise TypeError("keys must be str, int, float, bool or None, not %s" % type(k).__name__)


def _value(v, allow_nan):
    if v is None or v is True or v is False or isinstance(v, SymBool):
        return v
    if isinstance(v, (SymStr, SymDecStr, SymText)):
        return v
    if isinstance(v, SymBytes):
        raise TypeError("Object of type bytes is not JSON serializable")
    if getattr(v, "_vf_float", False):
        if not allow_nan and B(sym.sym_or(v.isnan(), v.isinf())):
            raise ValueError("Out of range float values are not JSON compliant")
        from .symfloat import SymFloat

        bits = z3.If(z3.fpIsNaN(v.fp), z3.BitVecVal(0x7FF8000000000000, 64), v.bits)
        return SymFloat(z3.simplify(bits))
    if isinstance(v, SymInt):
        return v
    if getattr(v, "_vf_sym", False):
        raise Unsupported("json.dumps of a %s" % type(v).__name__)
    if isinstance(v, str):
        return str(v)
    if isinstance(v, bool):
        return v
    if isinstance(v, int):
        return int(v)
    if isinstance(v, float):
        if v != v or v in (float("inf"), float("-inf")):
            if not allow_nan:
                raise ValueError("Out of range float values are not JSON compliant")
            return float("nan") if v != v else v
        return float(v)
    if isinstance(v, dict):
        out = {}
        for k, x in v.items():
            out[_key(k)] = _value(x, allow_nan)
        return out
    if isinstance(v, (list, tuple)):
        return [_value(x, allow_nan) for x in v]
    raise TypeError("Object of type %s is not JSON serializable" % type(v).__name__)


def _has_sym(v):
    if getattr(v, "_vf_sym", False):
        return True
    if isinstance(v, dict):
        return any(_has_sym(k) or _has_sym(x) for k, x in v.items())
    if isinstance(v, (list, tuple)):
        return any(_has_sym(x) for x in v)
    return False


def _copy(t):
    if isinstance(t, dict):
        return {k: _copy(v) for k, v in t.items()}
    if isinstance(t, list):
        return [_copy(v) for v in t]
    return t


class JsonShim:
    JSONDecodeError = _json.JSONDecodeError

    def __getattr__(self, name):
        return getattr(_json, name)

    def dumps(self, obj, *args, **kw):
        if not _has_sym(obj):
            return _json.dumps(obj, *args, **kw)
        if args or kw.get("default") or kw.get("cls") or kw.get("skipkeys"):
            raise Unsupported("json.dumps options")
        return JsonText(_value(obj, kw.get("allow_nan", True)))

    def loads(self, s, *args, **kw):
        if isinstance(s, JsonText):
            if args or kw:
                raise Unsupported("json.loads options")
            return _copy(s.tree)
        if getattr(s, "_vf_sym", False):
            raise Unsupported("json.loads of symbolic text")
        return _json.loads(s, *args, **kw)
