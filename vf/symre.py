"""Symbolic regex matcher driven by CPython's own parse tree (re._parser.parse) of the
*current* pattern strings of the module under test.  Backtracking semantics (greedy
repeats, alternation order, negative look-ahead, ^ and $), and re.sub's empty-match rule.
Supports exactly the node kinds that occur in betterproto (anything else: Unsupported)."""
import keyword as _kw
import re as _re
import re._parser as _p
from re._constants import (ANY, ASSERT_NOT, AT, AT_BEGINNING, AT_END, BRANCH, CATEGORY, CATEGORY_DIGIT, CATEGORY_SPACE, CATEGORY_WORD, IN,
                           LITERAL, MAX_REPEAT, MAXREPEAT, MIN_REPEAT, NEGATE, NOT_LITERAL, RANGE, SUBPATTERN)  # fmt: skip

import z3

from .sym import B, Unsupported
from .symstr import SymStr, cterm


class Match:
    def __init__(self, s, groups, ngroups):
        self.s, self.g, self.n = s, groups, ngroups

    def _get(self, i):
        if i > self.n:
            raise IndexError("no such group")
        sp = self.g.get(i)
        return None if sp is None else self.s[sp[0] : sp[1]]

    def __getitem__(self, i):
        return self._get(i)

    def group(self, *idx):
        if not idx:
            return self._get(0)
        if len(idx) == 1:
            return self._get(idx[0])
        return tuple(self._get(i) for i in idx)

    def groups(self, default=None):
        return tuple(self._get(i) if self._get(i) is not None else default for i in range(1, self.n + 1))

    def span(self, i=0):
        return self.g.get(i, (-1, -1))

    def start(self, i=0):
        return self.span(i)[0]

    def end(self, i=0):
        return self.span(i)[1]


def _cat(c, what):
    if what is CATEGORY_DIGIT:
        return z3.And(z3.UGE(c, 48), z3.ULE(c, 57))
    if what is CATEGORY_WORD:
        return z3.Or(z3.And(z3.UGE(c, 48), z3.ULE(c, 57)), z3.And(z3.UGE(c, 65), z3.ULE(c, 90)), z3.And(z3.UGE(c, 97), z3.ULE(c, 122)), c == 95)
    if what is CATEGORY_SPACE:
        return z3.Or(z3.And(z3.UGE(c, 9), z3.ULE(c, 13)), c == 32)
    raise Unsupported("regex category %r" % (what,))


def char_in(c, av):
    neg = False
    conds = []
    c = cterm(c)
    for op, a in av:
        if op is NEGATE:
            neg = True
        elif op is RANGE:
            conds.append(z3.And(z3.UGE(c, a[0]), z3.ULE(c, a[1])))
        elif op is LITERAL:
            conds.append(c == a)
        elif op is CATEGORY:
            conds.append(_cat(c, a))
        else:
            raise Unsupported("regex set item %r" % (op,))
    t = z3.Or(conds) if conds else z3.BoolVal(False)
    return B(z3.Not(t) if neg else t)


def m_seq(nodes, idx, s, pos, groups):
    """generator of (pos, groups) for matching nodes[idx:] at pos, in backtracking priority order"""
    if idx == len(nodes):
        yield pos, groups
        return
    op, av = nodes[idx]

    def rest(p, g):
        return m_seq(nodes, idx + 1, s, p, g)

    if op is LITERAL:
        if pos < len(s) and B(cterm(s.items[pos]) == av):
            yield from rest(pos + 1, groups)
    elif op is NOT_LITERAL:
        if pos < len(s) and B(cterm(s.items[pos]) != av):
            yield from rest(pos + 1, groups)
    elif op is ANY:
        if pos < len(s) and B(cterm(s.items[pos]) != 10):
            yield from rest(pos + 1, groups)
    elif op is IN:
        if pos < len(s) and char_in(s.items[pos], av):
            yield from rest(pos + 1, groups)
    elif op is AT:
        if av is AT_BEGINNING:
            if pos == 0:
                yield from rest(pos, groups)
        elif av is AT_END:
            if pos == len(s) or (pos == len(s) - 1 and B(cterm(s.items[pos]) == 10)):
                yield from rest(pos, groups)
        else:
            raise Unsupported("regex anchor %r" % (av,))
    elif op is SUBPATTERN:
        gid, add, dele, sub = av
        if add or dele:
            raise Unsupported("regex inline flags")
        for p2, g2 in m_seq(list(sub), 0, s, pos, groups):
            if gid is not None:
                g2 = dict(g2)
                g2[gid] = (pos, p2)
            yield from rest(p2, g2)
    elif op is BRANCH:
        for alt in av[1]:
            for p2, g2 in m_seq(list(alt), 0, s, pos, groups):
                yield from rest(p2, g2)
    elif op is ASSERT_NOT:
        direction, sub = av
        if direction != 1:
            raise Unsupported("look-behind")
        ok = True
        for _ in m_seq(list(sub), 0, s, pos, groups):
            ok = False
            break
        if ok:
            yield from rest(pos, groups)
    elif op is MAX_REPEAT or op is MIN_REPEAT:
        lo, hi, sub = av
        sub = list(sub)
        greedy = op is MAX_REPEAT

        def rep(count, p, g):
            if not greedy and count >= lo:
                yield from rest(p, g)
            if hi is MAXREPEAT or count < hi:
                for p2, g2 in m_seq(sub, 0, s, p, g):
                    if p2 == p:
                        # an empty iteration ends the loop
                        if count + 1 >= lo:
                            yield from rest(p2, g2)
                        continue
                    yield from rep(count + 1, p2, g2)
            if greedy and count >= lo:
                yield from rest(p, g)

        yield from rep(0, pos, groups)
    else:
        raise Unsupported("regex node %r" % (op,))


_CACHE = {}


class Pattern:
    def __init__(self, pat, flags=0):
        if flags:
            raise Unsupported("regex flags")
        if isinstance(pat, SymStr):
            pat = pat.concrete()
            if pat is None:
                raise Unsupported("symbolic regex pattern")
        self.pattern = pat
        parsed = _p.parse(pat)
        self.tree = list(parsed)
        self.ngroups = parsed.state.groups - 1

    def _native(self):
        return _re.compile(self.pattern)

    def match_at(self, s, pos, must_advance=False, full=False):
        for p2, g in m_seq(self.tree, 0, s, pos, {}):
            if must_advance and p2 == pos:
                continue
            if full and p2 != len(s):
                continue
            g = dict(g)
            g[0] = (pos, p2)
            return Match(s, g, self.ngroups)
        return None

    def match(self, string):
        if not isinstance(string, SymStr):
            return self._native().match(string)
        return self.match_at(string, 0)

    def fullmatch(self, string):
        if not isinstance(string, SymStr):
            return self._native().fullmatch(string)
        return self.match_at(string, 0, full=True)

    def search(self, string):
        if not isinstance(string, SymStr):
            return self._native().search(string)
        for start in range(len(string) + 1):
            m = self.match_at(string, start)
            if m:
                return m
        return None

    def sub(self, repl, string, count=0):
        if not isinstance(string, SymStr):
            return self._native().sub(repl, string, count)
        s = string
        out = SymStr([])
        i = 0  # end of the last match copied
        pos = 0
        must = False
        n = 0
        while pos <= len(s):
            m = None
            start = pos
            while start <= len(s):
                m = self.match_at(s, start, must_advance=(must and start == pos))
                if m:
                    break
                start += 1
            if not m:
                break
            b, e = m.span()
            out = out + s[i:b] + (repl(m) if callable(repl) else _expand(repl, m))
            i = e
            must = e == b
            pos = e
            n += 1
            if count and n >= count:
                break
        return out + s[i:]


def _expand(repl, m):
    if "\\" in repl:
        raise Unsupported("regex replacement template")
    return repl


def compile_(pat, flags=0):
    key = pat if isinstance(pat, str) and not isinstance(pat, SymStr) else None
    if key is not None and key in _CACHE and not flags:
        return _CACHE[key]
    p = Pattern(pat, flags)
    if key is not None:
        _CACHE[key] = p
    return p


class ReShim:
    """stands for the module `re` inside the module under test"""

    error = _re.error

    def __getattr__(self, name):
        return getattr(_re, name)

    def compile(self, pat, flags=0):
        return compile_(pat, flags)

    def sub(self, pat, repl, string, count=0, flags=0):
        return compile_(pat, flags).sub(repl, string, count)

    def match(self, pat, string, flags=0):
        return compile_(pat, flags).match(string)

    def fullmatch(self, pat, string, flags=0):
        return compile_(pat, flags).fullmatch(string)

    def search(self, pat, string, flags=0):
        return compile_(pat, flags).search(string)


class KwShim:
    kwlist = _kw.kwlist
    softkwlist = _kw.softkwlist

    def iskeyword(self, v):
        if not isinstance(v, SymStr):
            return _kw.iskeyword(v)
        for k in _kw.kwlist:
            if len(k) == len(v) and B(v.eqterm(SymStr.lift(k))):
                return True
        return False

    def issoftkeyword(self, v):
        if not isinstance(v, SymStr):
            return _kw.issoftkeyword(v)
        for k in _kw.softkwlist:
            if len(k) == len(v) and B(v.eqterm(SymStr.lift(k))):
                return True
        return False


class _PathShim:
    def __getattr__(self, name):
        import os

        return getattr(os.path, name)

    def commonprefix(self, m):
        """os.path.commonprefix on a list of lists (as used by reference_cousin): element-wise"""
        if not m:
            return ""
        if not all(isinstance(x, (list, tuple)) for x in m):
            import os

            return os.path.commonprefix(m)
        first = m[0]
        n = 0
        for i in range(min(len(x) for x in m)):
            same = True
            for other in m[1:]:
                r = first[i] == other[i]
                if not (B(r) if not isinstance(r, bool) else r):
                    same = False
                    break
            if not same:
                break
            n += 1
        return first[:n]


class OsShim:
    path = _PathShim()

    def __getattr__(self, name):
        import os

        return getattr(os, name)


def _wrap_compiled(mod):
    """module-level re.compile(...) objects were created before the shim was in place: replace them by the symbolic matcher"""
    n = 0
    for name, val in list(vars(mod).items()):
        if isinstance(val, _re.Pattern):
            flags = val.flags & ~_re.UNICODE
            setattr(mod, name, Pattern(val.pattern, flags))
            n += 1
    return n


def install_text(casing_mod=None, importing_mod=None):
    out = []
    for m in (casing_mod, importing_mod):
        if m is not None and _wrap_compiled(m):
            out.append("%s: module-level compiled patterns -> symbolic regex matcher" % m.__name__)
    if casing_mod is not None:
        casing_mod.re = ReShim()
        casing_mod.keyword = KwShim()
        out += ["betterproto.casing.re -> symbolic regex matcher driven by re._parser", "betterproto.casing.keyword -> iskeyword as a chain of equalities"]
    if importing_mod is not None:
        importing_mod.re = ReShim()
        importing_mod.os = OsShim()
        out += ["betterproto.compile.importing.re -> symbolic regex matcher", "betterproto.compile.importing.os.path.commonprefix -> element-wise model"]
    return out
