"""Symbolic strings: list of 21-bit code-point terms, concrete length per path."""
import builtins

import z3

from . import sym
from .sym import B, EngineLimit, SymBool, SymBytes, SymInt, Unsupported, W, mk, mkb

CW = 21  # bits per code point


def cterm(x):
    return z3.BitVecVal(x, CW) if isinstance(x, int) else x


def _cc(x):
    if isinstance(x, int):
        return x
    x = z3.simplify(x)
    return x.as_long() if z3.is_bv_value(x) else x


def _rng(c, lo, hi):
    return z3.And(z3.UGE(c, lo), z3.ULE(c, hi))


class SymStr(str):
    def __copy__(self):
        return self

    def __deepcopy__(self, memo):
        return self

    _vf_sym = True
    _vf_str = True

    def __new__(cls, items=()):
        o = str.__new__(cls, "")
        o.items = [_cc(x) for x in items]
        return o

    @staticmethod
    def lift(s):
        if isinstance(s, SymStr):
            return s
        if isinstance(s, SymDecStr):
            raise Unsupported("digits of a symbolic decimal string inspected")
        if isinstance(s, str):
            return SymStr([ord(c) for c in s])
        return None

    def is_concrete(self):
        return all(isinstance(x, int) for x in self.items)

    def concrete(self):
        return "".join(map(chr, self.items)) if self.is_concrete() else None

    def fold(self):
        """plain str when every code point is concrete"""
        c = self.concrete()
        return self if c is None else c

    def __len__(self):
        return len(self.items)

    def __bool__(self):
        return len(self.items) > 0

    def __hash__(self):
        return 0

    def __str__(self):
        return self

    def __repr__(self):
        return f"SymStr({self.items})"

    def __format__(self, spec):
        if spec:
            raise Unsupported("format spec on symbolic str")
        return self

    def __add__(self, o):
        o = SymStr.lift(o)
        if o is None:
            return NotImplemented
        return SymStr(self.items + o.items)

    def __radd__(self, o):
        o = SymStr.lift(o)
        if o is None:
            return NotImplemented
        return SymStr(o.items + self.items)

    def __mul__(self, n):
        return SymStr(self.items * int(n))

    __rmul__ = __mul__

    def __getitem__(self, i):
        if isinstance(i, slice):
            a, b = i.start, i.stop
            if isinstance(a, (SymInt, SymBool)):
                a = a.__index__()
            if isinstance(b, (SymInt, SymBool)):
                b = b.__index__()
            return SymStr(self.items[slice(a, b, i.step)])
        if isinstance(i, (SymInt, SymBool)):
            i = i.__index__()
        return SymStr([self.items[i]])

    def __iter__(self):
        for x in self.items:
            yield SymStr([x])

    def __contains__(self, o):
        return self.find(o) != -1

    def eqterm(self, o):
        if len(o) != len(self):
            return z3.BoolVal(False)
        cs = []
        for a, b in zip(self.items, o.items):
            if isinstance(a, int) and isinstance(b, int):
                if a != b:
                    return z3.BoolVal(False)
            else:
                cs.append(cterm(a) == cterm(b))
        return z3.And(cs) if cs else z3.BoolVal(True)

    def __eq__(self, o):
        o2 = SymStr.lift(o) if not isinstance(o, SymDecStr) else None
        if o2 is None:
            return NotImplemented
        return mkb(self.eqterm(o2))

    def __ne__(self, o):
        o2 = SymStr.lift(o) if not isinstance(o, SymDecStr) else None
        if o2 is None:
            return NotImplemented
        return mkb(z3.Not(self.eqterm(o2)))

    def __lt__(self, o):
        raise Unsupported("ordering of symbolic strings")

    __le__ = __gt__ = __ge__ = __lt__

    # -- ASCII character classes (each decision is a fork) ---------------------
    @staticmethod
    def _ascii(c):
        if isinstance(c, int):
            if c >= 128:
                raise Unsupported("non-ASCII character in a case/class operation")
            return
        if not B(z3.ULT(c, 128)):
            raise Unsupported("non-ASCII character in a case/class operation")

    @staticmethod
    def is_up(c):
        return B(_rng(cterm(c), 65, 90))

    @staticmethod
    def is_lo(c):
        return B(_rng(cterm(c), 97, 122))

    @staticmethod
    def is_di(c):
        return B(_rng(cterm(c), 48, 57))

    def lower(self):
        out = []
        for c in self.items:
            SymStr._ascii(c)
            out.append(c + 32 if SymStr.is_up(c) else c)
        return SymStr(out)

    def upper(self):
        out = []
        for c in self.items:
            SymStr._ascii(c)
            out.append(c - 32 if SymStr.is_lo(c) else c)
        return SymStr(out)

    def capitalize(self):
        if not self.items:
            return self
        return self[0:1].upper() + self[1:].lower()

    def isupper(self):
        cased = False
        for c in self.items:
            SymStr._ascii(c)
            if SymStr.is_lo(c):
                return False
            if SymStr.is_up(c):
                cased = True
        return cased

    def islower(self):
        cased = False
        for c in self.items:
            SymStr._ascii(c)
            if SymStr.is_up(c):
                return False
            if SymStr.is_lo(c):
                cased = True
        return cased

    def isdigit(self):
        if not self.items:
            return False
        for c in self.items:
            SymStr._ascii(c)
            if not SymStr.is_di(c):
                return False
        return True

    def isidentifier(self):
        if not self.items:
            return False
        for i, c in enumerate(self.items):
            SymStr._ascii(c)
            ok = SymStr.is_lo(c) or SymStr.is_up(c) or B(cterm(c) == 95) or (i > 0 and SymStr.is_di(c))
            if not ok:
                return False
        return True

    def _in_chars(self, c, chars):
        if chars is None:
            SymStr._ascii(c)
            return B(z3.Or(_rng(cterm(c), 9, 13), _rng(cterm(c), 28, 32)))
        chars = SymStr.lift(chars)
        return B(z3.Or([cterm(c) == cterm(ch) for ch in chars.items] or [z3.BoolVal(False)]))

    def rstrip(self, chars=None):
        items = list(self.items)
        while items and self._in_chars(items[-1], chars):
            items.pop()
        return SymStr(items)

    def lstrip(self, chars=None):
        items = list(self.items)
        while items and self._in_chars(items[0], chars):
            items.pop(0)
        return SymStr(items)

    def strip(self, chars=None):
        return self.lstrip(chars).rstrip(chars)

    def startswith(self, p, *a):
        if a:
            raise Unsupported("startswith with positions")
        if isinstance(p, tuple):
            return any(self.startswith(x) for x in p)
        p = SymStr.lift(p)
        if len(p) > len(self):
            return False
        return B(self[: len(p)].eqterm(p))

    def endswith(self, p, *a):
        if a:
            raise Unsupported("endswith with positions")
        if isinstance(p, tuple):
            return any(self.endswith(x) for x in p)
        p = SymStr.lift(p)
        if len(p) > len(self):
            return False
        return B(self[len(self) - len(p) :].eqterm(p))

    def find(self, sub, start=0, end=None):
        sub = SymStr.lift(sub)
        n, k = len(self) if end is None else min(end, len(self)), len(sub)
        for i in range(start, n - k + 1):
            if B(self[i : i + k].eqterm(sub)):
                return i
        return -1

    def rfind(self, sub, start=0, end=None):
        sub = SymStr.lift(sub)
        n, k = len(self) if end is None else min(end, len(self)), len(sub)
        for i in range(n - k, start - 1, -1):
            if B(self[i : i + k].eqterm(sub)):
                return i
        return -1

    def index(self, sub, *a):
        r = self.find(sub, *a)
        if r < 0:
            raise ValueError("substring not found")
        return r

    def count(self, sub):
        sub = SymStr.lift(sub)
        if not len(sub):
            return len(self) + 1
        i = n = 0
        while i <= len(self) - len(sub):
            if B(self[i : i + len(sub)].eqterm(sub)):
                n += 1
                i += len(sub)
            else:
                i += 1
        return n

    def split(self, sep=None, maxsplit=-1):
        if sep is None:
            raise Unsupported("whitespace split of a symbolic str")
        sep = SymStr.lift(sep)
        if not len(sep):
            raise ValueError("empty separator")
        parts, cur, i = [], [], 0
        while i < len(self):
            if (maxsplit < 0 or len(parts) < maxsplit) and i + len(sep) <= len(self) and B(self[i : i + len(sep)].eqterm(sep)):
                parts.append(SymStr(cur))
                cur = []
                i += len(sep)
            else:
                cur.append(self.items[i])
                i += 1
        parts.append(SymStr(cur))
        return parts

    def rsplit(self, sep=None, maxsplit=-1):
        if maxsplit < 0:
            return self.split(sep)
        raise Unsupported("rsplit with maxsplit")

    def join(self, parts):
        out = []
        for i, p in enumerate(parts):
            p = SymStr.lift(p)
            if p is None:
                raise TypeError("sequence item %d: expected str instance" % i)
            if i:
                out += self.items
            out += p.items
        return SymStr(out)

    def replace(self, old, new, count=-1):
        old, new = SymStr.lift(old), SymStr.lift(new)
        if not len(old):
            raise Unsupported("replace of the empty string")
        out, i, n = [], 0, 0
        while i < len(self):
            if (count < 0 or n < count) and i + len(old) <= len(self) and B(self[i : i + len(old)].eqterm(old)):
                out += new.items
                i += len(old)
                n += 1
            else:
                out.append(self.items[i])
                i += 1
        return SymStr(out)

    def format(self, *a, **k):
        raise Unsupported("str.format on a symbolic str")

    def encode(self, encoding="utf-8", errors="strict"):
        if encoding.lower().replace("-", "").replace("_", "") not in ("utf8",) or errors != "strict":
            raise Unsupported("encode(%r, %r)" % (encoding, errors))
        out = []
        for c in self.items:
            if isinstance(c, int):
                out += list(chr(c).encode("utf-8"))
                continue
            if B(z3.ULT(c, 0x80)):
                out.append(z3.Extract(7, 0, c))
            elif B(z3.ULT(c, 0x800)):
                out.append(z3.Concat(z3.BitVecVal(0b110, 3), z3.Extract(10, 6, c)))
                out.append(z3.Concat(z3.BitVecVal(0b10, 2), z3.Extract(5, 0, c)))
            elif B(z3.ULT(c, 0x10000)):
                if B(_rng(c, 0xD800, 0xDFFF)):
                    raise UnicodeEncodeError("utf-8", "?", 0, 1, "surrogates not allowed")
                out.append(z3.Concat(z3.BitVecVal(0b1110, 4), z3.Extract(15, 12, c)))
                out.append(z3.Concat(z3.BitVecVal(0b10, 2), z3.Extract(11, 6, c)))
                out.append(z3.Concat(z3.BitVecVal(0b10, 2), z3.Extract(5, 0, c)))
            else:
                if not B(z3.ULE(c, 0x10FFFF)):
                    raise EngineLimit("code point beyond U+10FFFF (harness must assume the range)")
                out.append(z3.Concat(z3.BitVecVal(0b11110, 5), z3.Extract(20, 18, c)))
                out.append(z3.Concat(z3.BitVecVal(0b10, 2), z3.Extract(17, 12, c)))
                out.append(z3.Concat(z3.BitVecVal(0b10, 2), z3.Extract(11, 6, c)))
                out.append(z3.Concat(z3.BitVecVal(0b10, 2), z3.Extract(5, 0, c)))
        return SymBytes(out)

    def __reduce__(self):
        raise Unsupported("pickling a symbolic str")


def utf8_decode(b):
    """strict UTF-8 decoder (CPython semantics: shortest form only, no surrogates, <= U+10FFFF)"""
    items = b.items
    out = []
    i, n = 0, len(items)

    def bad(i, why):
        raise UnicodeDecodeError("utf-8", builtins.bytes(1), 0, 1, why)

    def cont(j):
        if j >= n:
            bad(j, "unexpected end of data")
        t = sym.term8(items[j])
        if not B(z3.Extract(7, 6, t) == 0b10):
            bad(j, "invalid continuation byte")
        return z3.Extract(5, 0, t)

    while i < n:
        x = items[i]
        if isinstance(x, int) and x < 0x80:
            out.append(x)
            i += 1
            continue
        t = sym.term8(x)
        if B(z3.ULT(t, 0x80)):
            out.append(z3.ZeroExt(CW - 8, t))
            i += 1
        elif B(z3.ULT(t, 0xC2)):
            bad(i, "invalid start byte")
        elif B(z3.ULT(t, 0xE0)):
            c1 = cont(i + 1)
            out.append(z3.ZeroExt(CW - 11, z3.Concat(z3.Extract(4, 0, t), c1)))
            i += 2
        elif B(z3.ULT(t, 0xF0)):
            c1 = cont(i + 1)
            # E0: second byte A0..BF ; ED: second byte 80..9F
            hi = z3.Concat(z3.Extract(3, 0, t), c1)  # 10 bits
            if B(z3.ULT(hi, 0x20)):
                bad(i, "invalid continuation byte")  # overlong
            if B(z3.And(z3.UGE(hi, 0x360), z3.ULE(hi, 0x37F))):
                bad(i, "invalid continuation byte")  # surrogate
            c2 = cont(i + 2)
            out.append(z3.ZeroExt(CW - 16, z3.Concat(hi, c2)))
            i += 3
        elif B(z3.ULT(t, 0xF5)):
            c1 = cont(i + 1)
            hi = z3.Concat(z3.Extract(2, 0, t), c1)  # 9 bits: cp >> 12
            if B(z3.ULT(hi, 0x10)):
                bad(i, "invalid continuation byte")  # overlong
            if B(z3.UGT(hi, 0x10F)):
                bad(i, "invalid continuation byte")  # > U+10FFFF
            c2 = cont(i + 2)
            c3 = cont(i + 3)
            out.append(z3.Concat(hi, c2, c3))
            i += 4
        else:
            bad(i, "invalid start byte")
    return SymStr(out)


class SymDecStr(str):
    """canonical decimal text of a symbolic int: opaque, injective (str(n) <-> int(s))"""

    def __copy__(self):
        return self

    def __deepcopy__(self, memo):
        return self


    _vf_sym = True
    _vf_decstr = True

    def __new__(cls, value):
        o = str.__new__(cls, "")
        o.value = value
        return o

    def __hash__(self):
        return 0

    def __str__(self):
        return self

    def __eq__(self, o):
        if isinstance(o, SymDecStr):
            return self.value == o.value
        if isinstance(o, SymStr):
            raise Unsupported("decimal text compared with a symbolic str")
        if isinstance(o, str):
            try:
                v = int(o)
            except ValueError:
                return False
            if str(v) != o:
                return False
            return self.value == v
        return NotImplemented

    def __ne__(self, o):
        r = self.__eq__(o)
        if r is NotImplemented:
            return r
        return sym.sym_not(r)

    def __len__(self):
        raise Unsupported("length of a symbolic decimal string")

    def __bool__(self):
        return True

    def isdigit(self):
        # the canonical decimal text of n consists of digits only iff n >= 0 (a leading '-' otherwise)
        return self.value >= 0

    isdecimal = isnumeric = isdigit

    def startswith(self, prefix, *a):
        if a or not isinstance(prefix, str) or getattr(prefix, "_vf_sym", False):
            raise Unsupported("startswith on a symbolic decimal string")
        if prefix == "":
            return True
        if prefix == "-":
            return self.value < 0
        raise Unsupported("digits of a symbolic decimal string inspected")

    def __getitem__(self, i):
        raise Unsupported("digits of a symbolic decimal string inspected")

    def __iter__(self):
        raise Unsupported("digits of a symbolic decimal string inspected")

    def __add__(self, o):
        raise Unsupported("concatenation with a symbolic decimal string")

    __radd__ = __add__

    def __format__(self, spec):
        return "<symdec>"

    def __repr__(self):
        return f"SymDecStr({self.value!r})"


class SymText(str):
    """structured symbolic text produced by formatting: a sequence of pieces
         "literal"                       concrete text
         ("num", value, width)           decimal digits of a non-negative integer, zero-padded to `width` (width 0: canonical decimal, may be negative)
         ("iso", us)                     datetime.isoformat() of the naive instant `us` microseconds after 0001-01-01 (whole seconds): opaque and injective
       Two texts are compared piece by piece (after merging adjacent literals); that is sound for the formats used here because every
       numeric piece has a fixed width or is delimited by literals."""

    _vf_sym = True

    def __new__(cls, pieces=()):
        o = str.__new__(cls, "")
        norm = []
        for p in pieces:
            if isinstance(p, str) and not isinstance(p, SymText):
                if p == "":
                    continue
                if norm and isinstance(norm[-1], str):
                    norm[-1] = norm[-1] + p
                else:
                    norm.append(str(p))
            else:
                norm.append(p)
        o.pieces = norm
        return o

    @staticmethod
    def lift(x):
        if isinstance(x, SymText):
            return x
        if isinstance(x, SymStr):
            c = x.concrete()
            if c is None:
                raise Unsupported("symbolic characters inside formatted text")
            return SymText([c])
        if isinstance(x, str):
            return SymText([x])
        return None

    def __hash__(self):
        return 0

    def __copy__(self):
        return self

    def __deepcopy__(self, memo):
        return self

    def __bool__(self):
        return bool(self.pieces)

    def __str__(self):
        return self

    def __repr__(self):
        return "SymText(%r)" % (self.pieces,)

    def __format__(self, spec):
        if spec:
            raise Unsupported("format spec on formatted text")
        return self

    def __add__(self, o):
        o = SymText.lift(o)
        return NotImplemented if o is None else SymText(self.pieces + o.pieces)

    def __radd__(self, o):
        o = SymText.lift(o)
        return NotImplemented if o is None else SymText(o.pieces + self.pieces)

    def __len__(self):
        raise Unsupported("length of formatted text")

    def __getitem__(self, i):
        raise Unsupported("characters of formatted text inspected")

    def __eq__(self, o):
        o = SymText.lift(o) if isinstance(o, str) else None
        if o is None:
            return NotImplemented
        if len(self.pieces) != len(o.pieces):
            return False
        parts = []
        for a, b in zip(self.pieces, o.pieces):
            if isinstance(a, str) or isinstance(b, str):
                if a != b:
                    return False
                continue
            if a[0] != b[0] or (a[0] == "num" and a[2] != b[2]):
                return False
            parts.append(a[1] == b[1])
        return sym.sym_and(*parts)

    def __ne__(self, o):
        r = self.__eq__(o)
        return r if r is NotImplemented else sym.sym_not(r)

    def concrete_with(self, ev):
        """the concrete string under a model evaluator ev(value) -> int; iso pieces through datetime"""
        import datetime as _dt

        out = []
        for p in self.pieces:
            if isinstance(p, str):
                out.append(p)
            elif p[0] == "num":
                v = ev(p[1])
                out.append(str(v).zfill(p[2]) if p[2] else str(v))
            else:
                out.append((_dt.datetime(1, 1, 1) + _dt.timedelta(microseconds=ev(p[1]))).isoformat())
        return "".join(out)
