"""DESUGAR: import hook that closes CPython's dispatch holes for the modules of
/repo/src/betterproto *in the symbolic worker process only*.

Three syntactic forms are evaluated by CPython in C on the receiver's concrete payload and
therefore never reach a proxy's operator overloads: f-strings (BUILD_STRING), method
calls / subscripts whose receiver is a plain str/bytes/dict while an argument is symbolic,
and `x in container` with a concrete container.  The current source file is parsed, these
node kinds are rewritten into calls of the definitional helpers below, and the result is
compiled.  The helpers behave natively when nothing symbolic is involved.  The rewrite is
regenerated from the working tree on every run (no bytecode cache is used).
"""
import ast
import builtins
import importlib.abc
import importlib.machinery
import os
import sys
import types

from . import sym
from .sym import B, EngineLimit, SymBool, SymBytes, SymInt, Unsupported
from .symstr import SymDecStr, SymStr, SymText

STATS = {"fstr": 0, "call": 0, "getitem": 0, "setitem": 0, "in": 0, "files": 0}
METHODS = {
    "join", "find", "rfind", "index", "startswith", "endswith", "replace", "split", "rsplit", "strip", "lstrip",
    "rstrip", "get", "lower", "upper", "capitalize", "encode", "decode", "count", "format", "setdefault", "pop",
    "isidentifier", "isupper", "islower", "isdigit", "title", "removeprefix", "removesuffix",
}  # fmt: skip


def _s(v):
    return getattr(v, "_vf_sym", False)


def _any_sym(args, kw=()):
    for a in args:
        if _s(a):
            return True
        if type(a) in (list, tuple) and any(_s(x) for x in a):
            return True
    for a in kw:
        if _s(a):
            return True
    return False


def _num_piece(v, spec):
    """piece for an integer formatted with '', 'd', '0Nd' (None if the spec is something else)"""
    import re

    m = re.fullmatch(r"(?:0(\d+))?d?", spec or "")
    if m is None:
        return None
    width = int(m.group(1)) if m.group(1) else 0
    if width:
        # zero padding to `width` digits is only a fixed-width field for 0 <= v < 10**width
        if not (v >= 0 and v < 10**width):
            raise Unsupported("formatted integer outside its field width")
    return ("num", v, width)


def vf_fstr(*parts):
    symbolic_str = False
    structured = False
    out = []
    for p in parts:
        if type(p) is tuple:
            v, conv, spec = p
            if isinstance(v, SymText) and conv in (-1, 115) and not spec:
                structured = True
                out.append(v)
                continue
            if isinstance(v, (SymStr, SymDecStr)) and conv in (-1, 115) and not spec:
                symbolic_str = True
                out.append(v)
                continue
            if getattr(v, "_vf_z", False) and conv == -1:
                piece = _num_piece(v, spec)
                if piece is not None:
                    structured = True
                    out.append(SymText([piece]))
                    continue
            if _s(v):
                out.append("<sym>")  # formatting of symbolic values is not modelled (error messages)
                continue
            if conv == 115:
                v = str(v)
            elif conv == 114:
                v = repr(v)
            elif conv == 97:
                v = ascii(v)
            out.append(format(v, spec))
        else:
            out.append(p)
    if structured:
        r = SymText([])
        for x in out:
            r = r + x
        return r
    if symbolic_str:
        r = SymStr([])
        for x in out:
            r = r + x
        return r
    return "".join(out)


def _key_eq(a, b):
    try:
        r = a == b
    except (EngineLimit, sym.PathAbort):
        raise
    if r is NotImplemented:
        return False
    return B(r) if isinstance(r, SymBool) else bool(r)


def _dict_needs_scan(d, k):
    if _s(k):
        return True
    try:
        if hash(k) == 0:
            return False  # native probing reaches the hash-0 proxies and compares with __eq__
    except TypeError:
        return False
    for kk in d:
        if _s(kk):
            return True
    return False


_MISSING = object()


def dict_find(d, k):
    """the key object of d equal to k (equality decided by the solver), or _MISSING"""
    for kk in list(d):
        if _key_eq(kk, k):
            return kk
    return _MISSING


def vf_call(recv, name, *a, **k):
    t = type(recv)
    if t is str and _any_sym(a, k.values()):
        return getattr(SymStr.lift(recv), name)(*a, **k)
    if t is dict or t is types.MappingProxyType:
        if name in ("get", "pop", "setdefault") and a and _dict_needs_scan(recv, a[0]):
            kk = dict_find(recv, a[0])
            if name == "get":
                return recv[kk] if kk is not _MISSING else (a[1] if len(a) > 1 else k.get("default"))
            if name == "pop":
                if kk is not _MISSING:
                    return recv.pop(kk)
                if len(a) > 1:
                    return a[1]
                raise KeyError(a[0])
            if kk is not _MISSING:
                return recv[kk]
            recv[a[0]] = a[1] if len(a) > 1 else None
            return recv[a[0]]
    elif t is bytes and _any_sym(a, k.values()):
        if name == "join":
            out = SymBytes([])
            for i, p in enumerate(a[0]):
                if i:
                    out = out + recv
                out = out + p
            return out
        raise Unsupported("bytes.%s with a symbolic argument" % name)
    return getattr(recv, name)(*a, **k)


def vf_getitem(a, b):
    t = type(a)
    if (t is dict or t is types.MappingProxyType) and _dict_needs_scan(a, b):
        kk = dict_find(a, b)
        if kk is _MISSING:
            raise KeyError(b)
        return a[kk]
    if t is str and (_s(b) or (type(b) is slice and (_s(b.start) or _s(b.stop)))):
        return SymStr.lift(a)[b]
    return a[b]


def vf_setitem(a, b, v):
    if type(a) is dict and _dict_needs_scan(a, b):
        kk = dict_find(a, b)
        if kk is not _MISSING:
            a[kk] = v
            return
    a[b] = v


_DICT_KEYS = type({}.keys())


def _has_sym_key(d):
    for k in d:
        if _s(k):
            return True
    return False


def _val_eq(x, y):
    r = x == y
    if r is NotImplemented:
        return False
    return B(r) if isinstance(r, SymBool) else bool(r)


def dict_eq(a, b):
    """dict equality with keys compared through the solver (a C-level comparison would probe by hash)"""
    if len(a) != len(b):
        return False
    for ka in list(a):
        kb = dict_find(b, ka)
        if kb is _MISSING:
            return False
        if not _val_eq(a[ka], b[kb]):
            return False
    return True


def vf_eq(a, b, neg):
    ta, tb = type(a), type(b)
    if ta is dict and tb is dict and (_has_sym_key(a) or _has_sym_key(b)):
        r = dict_eq(a, b)
        return (not r) if neg else r
    if ta is _DICT_KEYS and tb is _DICT_KEYS and (_has_sym_key(a) or _has_sym_key(b)):
        r = len(a) == len(b) and all(dict_find(b, k) is not _MISSING for k in list(a))
        return (not r) if neg else r
    return (a != b) if neg else (a == b)


def vf_in(a, b, neg):
    t = type(b)
    if t in (dict, set, frozenset, types.MappingProxyType) and _dict_needs_scan(b, a):
        r = any(_key_eq(kk, a) for kk in list(b))
    elif t is str and _s(a):
        r = SymStr.lift(b).__contains__(a)
    else:
        r = a in b
    return (not r) if neg else r


class _T(ast.NodeTransformer):
    def visit_JoinedStr(self, node):
        self.generic_visit(node)
        STATS["fstr"] += 1
        args = []
        for v in node.values:
            if isinstance(v, ast.Constant):
                args.append(v)
            else:
                spec = v.format_spec if v.format_spec is not None else ast.Constant("")
                args.append(ast.Tuple([v.value, ast.Constant(v.conversion), spec], ast.Load()))
        return ast.copy_location(ast.Call(ast.Name("__vf_fstr__", ast.Load()), args, []), node)

    def visit_Call(self, node):
        self.generic_visit(node)
        f = node.func
        if (
            isinstance(f, ast.Attribute)
            and f.attr in METHODS
            and not any(isinstance(x, ast.Starred) for x in node.args)
            and not any(k.arg is None for k in node.keywords)
            and not (isinstance(f.value, ast.Call) and isinstance(f.value.func, ast.Name) and f.value.func.id == "super")
        ):
            STATS["call"] += 1
            return ast.copy_location(
                ast.Call(ast.Name("__vf_call__", ast.Load()), [f.value, ast.Constant(f.attr)] + node.args, node.keywords), node
            )
        return node

    def visit_Subscript(self, node):
        self.generic_visit(node)
        if isinstance(node.ctx, ast.Load):
            STATS["getitem"] += 1
            return ast.copy_location(ast.Call(ast.Name("__vf_getitem__", ast.Load()), [node.value, node.slice], []), node)
        return node

    def visit_Assign(self, node):
        self.generic_visit(node)
        if len(node.targets) == 1 and isinstance(node.targets[0], ast.Subscript):
            t = node.targets[0]
            STATS["setitem"] += 1
            return ast.copy_location(
                ast.Expr(ast.Call(ast.Name("__vf_setitem__", ast.Load()), [t.value, t.slice, node.value], [])), node
            )
        return node

    def visit_AnnAssign(self, node):
        node.target = self.visit(node.target)
        if node.value is not None:
            node.value = self.visit(node.value)
        return node  # the annotation is left alone

    def visit_arguments(self, node):
        node.defaults = [self.visit(d) for d in node.defaults]
        node.kw_defaults = [self.visit(d) if d is not None else None for d in node.kw_defaults]
        return node

    def visit_FunctionDef(self, node):
        node.args = self.visit(node.args)
        node.body = [self.visit(b) for b in node.body]
        node.decorator_list = [self.visit(d) for d in node.decorator_list]
        return node

    visit_AsyncFunctionDef = visit_FunctionDef

    def visit_ClassDef(self, node):
        node.body = [self.visit(b) for b in node.body]
        node.decorator_list = [self.visit(d) for d in node.decorator_list]
        return node  # bases / keywords are left alone (Generic[T])

    def visit_Compare(self, node):
        self.generic_visit(node)
        if len(node.ops) == 1 and isinstance(node.ops[0], (ast.Eq, ast.NotEq)):
            STATS["eq"] = STATS.get("eq", 0) + 1
            return ast.copy_location(
                ast.Call(
                    ast.Name("__vf_eq__", ast.Load()),
                    [node.left, node.comparators[0], ast.Constant(isinstance(node.ops[0], ast.NotEq))],
                    [],
                ),
                node,
            )
        if len(node.ops) == 1 and isinstance(node.ops[0], (ast.In, ast.NotIn)):
            STATS["in"] += 1
            return ast.copy_location(
                ast.Call(
                    ast.Name("__vf_in__", ast.Load()),
                    [node.left, node.comparators[0], ast.Constant(isinstance(node.ops[0], ast.NotIn))],
                    [],
                ),
                node,
            )
        return node


REBIND = False  # set by the symbolic worker: bind the environment models while the module is being imported (see _inject_rebind)


def _rebind_kind(path):
    p = path.replace(os.sep, "/")
    if p.endswith("/betterproto/__init__.py"):
        return "core"
    if p.endswith("/betterproto/casing.py") or p.endswith("/betterproto/compile/importing.py"):
        return "text"
    return None


def _inject_rebind(tree, kind):
    """`__vf_rebind__(globals(), kind, first)` at the top of the module and after every top-level import: the names that stand for C code
    (struct, json, BytesIO, re, ... and the builtins int / float / str / bytes) are bound to their models *before* module-level code
    runs, so that tables, precompiled objects and default arguments built at import time capture the models and not the C objects"""

    def call(first):
        return ast.Expr(ast.Call(ast.Name("__vf_rebind__", ast.Load()), [ast.Call(ast.Name("globals", ast.Load()), [], []), ast.Constant(kind), ast.Constant(first)], []))

    body, out, started = tree.body, [], False
    for i, st in enumerate(body):
        is_doc = i == 0 and isinstance(st, ast.Expr) and isinstance(getattr(st, "value", None), ast.Constant) and isinstance(st.value.value, str)
        is_future = isinstance(st, ast.ImportFrom) and st.module == "__future__"
        if not started and not is_doc and not is_future:
            out.append(call(True))
            started = True
        out.append(st)
        if isinstance(st, (ast.Import, ast.ImportFrom)) and not is_future:
            out.append(call(False))
    tree.body = out
    return tree


def vf_rebind(g, kind, first):
    if not REBIND:
        return
    from . import shims

    shims.rebind(g, kind, first)


def rewrite(source, path):
    tree = ast.parse(source, path)
    tree = _T().visit(tree)
    kind = _rebind_kind(path)
    if kind:
        tree = _inject_rebind(tree, kind)
    return ast.fix_missing_locations(tree)


class Loader(importlib.machinery.SourceFileLoader):
    def source_to_code(self, data, path, *, _optimize=-1):
        STATS["files"] += 1
        return compile(rewrite(data, path), path, "exec", dont_inherit=True, optimize=_optimize)

    def get_code(self, fullname):  # never use the bytecode cache
        path = self.get_filename(fullname)
        return self.source_to_code(self.get_data(path), path)


class Finder(importlib.abc.MetaPathFinder):
    def __init__(self, root):
        self.root = root

    def find_spec(self, fullname, path, target=None):
        if not (fullname == "betterproto" or fullname.startswith("betterproto.")):
            return None
        spec = importlib.machinery.PathFinder.find_spec(fullname, path)
        if spec is None or not spec.origin or not spec.origin.startswith(self.root) or not spec.origin.endswith(".py"):
            return spec
        spec.loader = Loader(fullname, spec.origin)
        return spec


def repo_root():
    return os.environ.get("VERIF_REPO", "/repo")


def install():
    builtins.__vf_fstr__ = vf_fstr
    builtins.__vf_call__ = vf_call
    builtins.__vf_getitem__ = vf_getitem
    builtins.__vf_setitem__ = vf_setitem
    builtins.__vf_in__ = vf_in
    builtins.__vf_eq__ = vf_eq
    builtins.__vf_rebind__ = vf_rebind
    root = os.path.join(repo_root(), "src", "betterproto")
    if "betterproto" in sys.modules:
        raise RuntimeError("betterproto imported before the DESUGAR hook")
    sys.meta_path.insert(0, Finder(root))
