#!/bin/bash
# tools/try_patch.sh <patch.diff> <PROP> [more check args]  -- runs a check against a scratch worktree of /repo with the patch applied
set -u
PATCH="$(readlink -f "$1")"; shift
D=$(mktemp -d /tmp/vfmut.XXXXXX)
git -C /repo worktree add -q --detach "$D/repo" HEAD || exit 9
( cd "$D/repo" && git apply "$PATCH" ) || { echo "patch does not apply"; git -C /repo worktree remove --force "$D/repo"; rm -rf "$D"; exit 9; }
cd /verif
VERIF_REPO="$D/repo" ./check "$@"
code=$?
git -C /repo worktree remove --force "$D/repo"; rm -rf "$D"
exit $code
