#!/bin/bash
# tools/eval_benign.sh <NAME> <SRC_DIR> <PROP>...  -- a behaviour-preserving refactoring (SRC_DIR/patch.diff, notes.md): every listed check must
# stay quiet on it (exit 0, no VIOLATION line).  Records the outcome under /verif/benign/<NAME>/.
set -u
NAME=$1; SRC=$2; shift; shift
OUT=/verif/benign/$NAME; mkdir -p "$OUT"
cp "$SRC/patch.diff" "$OUT/patch.diff" || exit 9
[ -f "$SRC/notes.md" ] && cp "$SRC/notes.md" "$OUT/notes.md"
D=$(mktemp -d /tmp/vfben.XXXXXX)
git -C /repo worktree add -q --detach "$D/repo" HEAD || exit 9
( cd "$D/repo" && git apply "$OUT/patch.diff" ) || { echo "patch does not apply"; git -C /repo worktree remove --force "$D/repo"; rm -rf "$D"; exit 9; }
suite=$(cd "$D/repo" && PYTHONPATH=$D/repo/src /venv/bin/python -m pytest -q -p no:cacheprovider --timeout=900 --continue-on-collection-errors 2>&1 | tail -1 | sed 's/ in [0-9.]*s.*//')
cd /verif
res=""
for p in "$@"; do
  VERIF_REPO="$D/repo" ./check $p --tier quick > "$OUT/$p.log" 2>&1
  code=$?
  nv=$(grep -c '^VIOLATION' "$OUT/$p.log")
  res="$res $p:exit=$code,violations=$nv"
  grep -m3 '^  violated\|^HARNESS\|harness' "$OUT/$p.log" | cut -c1-400
done
git -C /repo worktree remove --force "$D/repo"; rm -rf "$D"
python3 - "$NAME" "$suite" $res <<'PY'
import json, sys
name, suite = sys.argv[1:3]
checks = {}
for r in sys.argv[3:]:
    p, rest = r.split(":", 1)
    kv = dict(x.split("=") for x in rest.split(","))
    checks[p] = {"exit": int(kv["exit"]), "violations": int(kv["violations"])}
quiet = all(c["exit"] == 0 and c["violations"] == 0 for c in checks.values())
json.dump({"name": name, "origin": "independent sub-agent asked for a substantial behaviour-preserving refactoring of one area (own scratch worktree, nothing from /verif)",
           "pinned_suite_with_change": suite, "checks": checks, "all_quiet": quiet}, open("/verif/benign/%s/result.json" % name, "w"), indent=1)
print(name, "suite:", suite, "|", " ".join("%s=%d/%d" % (p, c["exit"], c["violations"]) for p, c in checks.items()), "| quiet" if quiet else "| ALARM")
PY
