#!/bin/bash
# runs the thorough tier of the listed (default: all claimed) properties sequentially; evidence is written to evidence_thorough/ copies
cd /verif
PROPS=${@:-$(python3 -c "import json; print(' '.join(c['property_id'] for c in json.load(open('MANIFEST.json'))['checks']))")}
mkdir -p /tmp/thorough
for p in $PROPS; do
  s=$(date +%s)
  ./check $p --tier thorough > /tmp/thorough/$p.log 2>&1; code=$?
  e=$(date +%s)
  cp evidence/$p.json /tmp/thorough/$p.evidence.json
  echo "$p exit=$code wall=$((e-s))s $(grep -c '^VIOLATION' /tmp/thorough/$p.log) violations $(grep -c '^HARNESS' /tmp/thorough/$p.log) harness | $(grep "^$p thorough" /tmp/thorough/$p.log | cut -c1-220)"
done
