#!/bin/bash
# tools/seed_regress.sh [dir-name ...]  -- re-runs the quick check of every kept seeded change (seeded/<name>/patch.diff) against a scratch
# worktree and reports whether it is still detected.  Output: one line per change; exit 1 if any is missed.
set -u
cd /verif
names=("$@"); [ ${#names[@]} -eq 0 ] && names=($(ls seeded | sort -V))
miss=0
for n in "${names[@]}"; do
  id=${n%%-*}
  out=$(timeout 2400 tools/try_patch.sh seeded/$n/patch.diff $id --tier quick 2>&1)
  code=$?
  nv=$(echo "$out" | grep -c '^VIOLATION')
  first=$(echo "$out" | grep -m1 '^  violated' | cut -c1-160)
  if [ $code -eq 1 ] && [ $nv -gt 0 ]; then echo "$n detected ($nv) $first"; else echo "$n MISSED exit=$code"; miss=1; fi
done
exit $miss
