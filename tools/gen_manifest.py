#!/usr/bin/env python3
"""regenerates /verif/MANIFEST.json from the table below"""
import json, os

HERE = os.path.dirname(os.path.dirname(os.path.abspath(__file__)))
TECH = ("bounded symbolic execution of the real code (proxy values + AST-desugaring import hook, environment models bound while the module is imported, process-level state reset before every path) "
        "with z3 deciding every branch and assertion; counterexamples replayed natively")
NOTE = ("Trusted base: z3; the proxy semantics and environment models (vf/sym*.py, vf/shims.py: BytesIO, struct, int/float/str constructors, "
        "base64, regex) validated by a native twin on every path and by ./check selftest; spec models (vf/spec) validated against google.protobuf "
        "at every path witness. Bounds per tier are in the evidence file (coverage.bounds); nothing is claimed outside them.")

CLAIMED = {
    "C01": ("model_checking", "For every shape of the stated catalogue and all field values within the bounds, z3 shows on every path that parse(bytes(m)) == m, "
            "that the decoded message denotes the abstract value (oneof selection, optional None-ness, nested presence) and that re-encoding is byte-identical.", "4 C01"),
    "C02": ("model_checking", "Encode direction: betterproto's symbolic output is decoded by a strict spec decoder and must denote the abstract value on every path; decode direction: "
            "every legal re-encoding produced by the spec encoder (permutation, unpacked, split packed run, padded varints, duplicated scalars, oneof members in any order, "
            "interleaved unknown fields) must decode to the same value. The spec models are checked against google.protobuf in both directions at every path witness.", "4 C02"),
    "C08": ("model_checking", "For (newer, older) schema pairs obtained by deleting subsets of fields and all values within the bounds, z3 shows the older reader/writer round trip is lossless; "
            "unknown runs with symbolic number, wire type, payload and position are re-emitted byte-identically in arrival order, accumulate across decodes into one instance and are not shared with copies; "
            "older schemas of nested types (unknown fields inside sub-messages, list elements, map values, oneof members).", "4 C08"),
    "C09": ("model_checking", "len(m) is kept as a symbolic sum of size_varint terms and proved equal to the concrete length of bytes(m) on every path; dump / SIZE_DELIMITED dump / SerializeToString "
            "are proved equal to bytes(m) and to the spec's varint length prefix.", "4 C09"),
    "C10": ("model_checking", "Sequences of 1-3 messages of mixed types with symbolic values are written with SIZE_DELIMITED and read back; the cut point is a symbolic choice over every byte "
            "of the stream; every load either raises or returns the written message; delimited frames of catalogue shapes (optionals, oneofs, field-less messages) and frames re-written after in-place edits.", "4 C10"),
    "C17": ("model_checking", "Arbitrary symbolic byte strings (and valid encodings with a symbolic truncation point, a symbolic corrupted byte, or a substituted wire type) are fed to parse; a strict "
            "spec decoder decides per path whether the input is malformed (must raise) or well-formed (must decode to the spec's view with well-typed fields, mismatching wire types kept as unknown).", "4 C17"),
    "C04": ("model_checking", "to_dict / from_dict (both casings, classmethod and instance form) are executed on symbolic values: 64-bit ints as opaque decimal strings, bytes through an exact base64 "
            "model, non-finite doubles by fork; z3 decides per path that the round trip reproduces the message and its bytes. The text path (to_json / from_json) is decided on a model of "
            "json.dumps/loads (serialisability and the value tree the text parses back to), the real json runs at every path witness.", "4 C04"),
    "C05": ("model_checking", "Key clause: for every proto identifier up to the bound, the emitted key is compared with protoc's ToJsonName and the reference's key is mapped back. Value clause: to_dict is "
            "compared with a spec model of the canonical proto3 JSON mapping on every path, and the canonical object is fed back; json_format Parse/MessageToJson run at every witness in both directions.", "4 C05"),
    "C06": ("model_checking", "Every field is put in {never set, default, non-default} through {constructor, attribute, parse, from_dict}; the emitted field numbers and the presence report after decoding are "
            "compared on every path with the proto3 presence rules (spec encoder), also after the message has been carried through copy / deepcopy before its first read; HasField/WhichOneof of the reference at every witness.", "4 C06"),
    "C07": ("model_checking", "Inductive step from an arbitrary state satisfying the representation invariant (pre-state written directly into the slots) for each of 8 operations, plus bounded histories "
            "from a fresh message with environment-chosen operations; the observable clause (which_one_of, AttributeError, wire, JSON) is asserted after every step; the invariant is a proof device "
            "(a step that does not re-establish it is followed by one more operation and observed again, never reported by itself). Groups with field-less and Timestamp/Duration members included.", "4 C07"),
    "C12": ("model_checking", "The real AsyncChannel runs on the real event loop; the schedule (which gated actor proceeds, cancellation point, whether the loop runs) is a tree of environment choices explored "
            "exhaustively inside the bound, the buffer limit is a solver variable. Bounded exhaustive schedule exploration of the real code, solver prunes only.", "4 C12"),
    "C13": ("model_checking", "Claimed in part: the reference/alias computation of compile/importing.py is executed on symbolic package paths (every character symbolic) and the resulting annotation and import "
            "lines are interpreted by a model of Python's relative-import semantics; must denote the target module and class, also when two references coexist. The name under which "
            "plugin/parser.traverse + pythonize_class_name *define* a nested type is decided against the name the reference denotes (symbolic type names). At every witness the reference is "
            "also resolved by the runtime itself in a real package tree written to disk (native, witness level).", "4 C13"),
    "C14": ("model_checking", "Messages built three ways with symbolic values; each observer (11 of them) and each of copy/deepcopy/pickle(__reduce__) is followed by a snapshot comparison "
            "(bytes, presence report, oneof selection) decided by z3; mutation of deep copies (field assignment or decoding further fields into the copy) must leave the original's snapshot unchanged; "
            "messages built by a history (constructor with two oneof members, assignment, decode-into) and shapes with field-less sub-message types included.", "4 C14"),
    "C15": ("model_checking", "The four conversion kernels are executed on mathematical integers (LIA back end): one symbolic microsecond count over the whole +-10000-year range and one symbolic UTC offset; "
            "z3 proves (seconds, nanos) equal to the spec formulas and the decode identical. JSON strings (C code) are compared with the reference at witnesses and at boundary constants.", "4 C15"),
    "C19": ("model_checking", "Every identifier [A-Za-z_][A-Za-z0-9_]* up to the bound is one symbolic string; the real casing functions run on it through a symbolic regex matcher driven by CPython's own "
            "regex parse tree; identifier-ness, keyword-freeness, idempotence and key-maps-back are decided per path.", "4 C19"),
    "C20": ("model_checking", "Enum definitions and field values are environment choices over boundary numbers (enum members are C ints, not solver variables): lookup identity, aliases, copy identity, "
            "immutability, open values in five field positions through both codecs, pickling of every member (incl. members named like attributes of int) at every witness. The all-int32 claim for the enum wire codec is carried by C16.", "4 C20"),
    "C16": ("model_checking", "All integers of [-2**63, 2**64) and [-2**80, -2**63) and every decoder input of length <= 11 are decided by z3 on 12-80 paths per harness; "
            "per-kind single-field encodings are proved equal to an independent spec encoder that is checked against google.protobuf at each witness.", "4 C16"),
}
NA = {
    "C03": "quantifies over schemas; observable is the imported output of Jinja2 + compile + import, none of which is encodable for a solver (DESIGN.md section 5)",
    "C11": "needs the rendered stub/server templates running over grpclib/h2 on asyncio; the protocol stack realises every symbolic byte (DESIGN.md section 5)",
    "C18": "plugin options change rendered text only (Jinja2, pydantic-core in Rust); no value-level variable for a solver (DESIGN.md section 5)",
}
ALL = ["C%02d" % i for i in range(1, 21)]


def main():
    checks = []
    for pid in ALL:
        if pid in CLAIMED:
            cat, text, ref = CLAIMED[pid]
            checks.append({
                "property_id": pid,
                "quick_cmd": "./check %s --tier quick" % pid,
                "thorough_cmd": "./check %s --tier thorough" % pid,
                "evidence_file": "evidence/%s.json" % pid,
                "replay_cmd_template": "./check replay {path}",
                "engine": "shadow",
                "level_claimed": {"category": cat, "text": text, "design_ref": "DESIGN.md section " + ref},
                "level_note": NOTE,
                "technique": TECH,
            })
    na = [{"property_id": p, "reason": NA.get(p, "check not built yet (work in progress; see DESIGN.md section 4 for the plan)")} for p in ALL if p not in CLAIMED]
    man = {
        "version": 1,
        "setup_cmd": "./check setup",
        "hooks": {
            "guard": "BETTERPROTO_VERIF",
            "enable": "no source hooks: instrumentation happens in the checking process (import-time AST rewrite + rebinding of module globals); the guard name is reserved and unused",
            "baseline_off_cmd": "cd /repo && /venv/bin/python -m pytest -ra -q -p no:cacheprovider --timeout=900 --continue-on-collection-errors",
            "source_commits": [],
            "add_only": True,
        },
        "engines": [{"name": "shadow", "path": "vf/", "serves_properties": sorted(CLAIMED),
                     "kind_free_text": "own symbolic executor for CPython code: proxy values carrying z3 terms, stateless DFS over solver-decided branches, 16-process pool"}],
        "checks": checks,
        "not_applicable": na,
        "notes": "Known findings: known_findings.json (regions are evaluated symbolically; fixed: entries suppress nothing). Exit 3 = harness/oracle error (never a VIOLATION).",
    }
    with open(os.path.join(HERE, "MANIFEST.json"), "w") as f:
        json.dump(man, f, indent=1)


main()
