#!/bin/bash
# tools/eval_seed.sh <ID> [SRC_DIR=/tmp/seed/<ID>] [check args...]
# Confirms a seeded change independently (demo passes on the original, fails with the change; pinned suite unchanged),
# runs the property's check against the changed tree and records the outcome under /verif/seeded/<ID>/.
set -u
ID=$1; SRC=${2:-/tmp/seed/$ID}; shift; shift 2>/dev/null
OUT=/verif/seeded/${OUTNAME:-$ID}; mkdir -p "$OUT"
cp "$SRC/patch.diff" "$OUT/patch.diff" || exit 9
cp "$SRC/demo.py" "$OUT/demo.py" || exit 9
[ -f "$SRC/notes.md" ] && cp "$SRC/notes.md" "$OUT/notes.md"
D=$(mktemp -d /tmp/vfseed.XXXXXX)
git -C /repo worktree add -q --detach "$D/repo" HEAD || exit 9
orig_demo=$(cd "$D" && PYTHONPATH=$D/repo/src timeout 300 /venv/bin/python "$OUT/demo.py" >/dev/null 2>&1; echo $?)
( cd "$D/repo" && git apply "$OUT/patch.diff" ) || { echo "patch does not apply"; git -C /repo worktree remove --force "$D/repo"; rm -rf "$D"; exit 9; }
mut_demo=$(cd "$D" && PYTHONPATH=$D/repo/src timeout 300 /venv/bin/python "$OUT/demo.py" >/dev/null 2>&1; echo $?)
suite=$(cd "$D/repo" && PYTHONPATH=$D/repo/src /venv/bin/python -m pytest -q -p no:cacheprovider --timeout=900 --continue-on-collection-errors 2>&1 | tail -1 | sed 's/ in [0-9.]*s.*//')
cd /verif
log="$OUT/check.log"
VERIF_REPO="$D/repo" ./check $ID --tier quick "$@" > "$log" 2>&1
code=$?
nviol=$(grep -c '^VIOLATION' "$log")
first=$(grep -m1 '^  violated' "$log" | cut -c1-300)
git -C /repo worktree remove --force "$D/repo"; rm -rf "$D"
python3 - "${OUTNAME:-$ID}" "$orig_demo" "$mut_demo" "$suite" "$code" "$nviol" "$first" <<'PY'
import json, sys, os
ID, od, md, suite, code, nv, first = sys.argv[1:8]
out = "/verif/seeded/%s" % ID
ID = ID.split("-")[0]
meta = {
  "property": ID,
  "origin": "independent sub-agent given only the property text and its own scratch worktree",
  "needs_to_manifest": open(out + "/notes.md").read()[:1500] if os.path.exists(out + "/notes.md") else "",
  "confirmed": {"demo_exit_on_original": int(od), "demo_exit_with_change": int(md), "pinned_suite_with_change": suite,
                "commands": ["PYTHONPATH=<worktree>/src /venv/bin/python demo.py", "pytest -q -p no:cacheprovider --timeout=900 --continue-on-collection-errors"]},
  "check": {"cmd": "VERIF_REPO=<worktree with patch> ./check %s --tier quick" % ID, "exit": int(code), "violations": int(nv), "first": first,
            "detected": int(code) == 1 and int(nv) > 0},
}
json.dump(meta, open(out + "/meta.json", "w"), indent=1)
print(ID, "demo orig/mut:", od, md, "| suite:", suite, "| check exit", code, "violations", nv, "|", first[:160])
PY
