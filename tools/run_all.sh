#!/bin/bash
# runs every claimed check of a tier sequentially; prints one line per property
TIER=${1:-quick}
cd /verif
for p in $(python3 -c "import json; print(' '.join(c['property_id'] for c in json.load(open('MANIFEST.json'))['checks']))"); do
  s=$(date +%s)
  out=$(./check $p --tier $TIER 2>&1); code=$?
  e=$(date +%s)
  echo "$p exit=$code wall=$((e-s))s $(echo "$out" | grep -c '^VIOLATION') violations $(echo "$out" | grep -c '^KNOWN-FINDING') known $(echo "$out" | grep -c '^HARNESS') harness-errors | $(echo "$out" | grep "^$p $TIER" | cut -c1-160)"
done
